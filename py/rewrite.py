"""Semantics-preserving opacifying rewrites (C02) on Starlark text, via Python's ast.

R1 literals -> opaque(lit); R2 callee f(..) -> opaque(f)(..); R3 receiver e.m -> opaque(e).m;
R4 dead second assignment for module-level names; R5 conditions -> opaque(cond); R6 all.
`opaque` is a harness-native identity function the optimiser knows nothing about.
"""
import ast

SKIP_CALLEES = {"opaque", "emit", "load", "fails", "t"}


def _op(node):
    return ast.copy_location(ast.Call(func=ast.Name(id="opaque", ctx=ast.Load()), args=[node], keywords=[]), node)


class Rewriter(ast.NodeTransformer):
    def __init__(self, r1=False, r2=False, r3=False, r5=False):
        self.r1, self.r2, self.r3, self.r5 = r1, r2, r3, r5

    # never touch annotations / load statements / f-string internals
    def visit_arg(self, node):
        return node

    def visit_AnnAssign(self, node):
        node.value = self.visit(node.value) if node.value else None
        return node

    def visit_JoinedStr(self, node):
        return node

    def visit_FunctionDef(self, node):
        node.args.defaults = [self.visit(d) for d in node.args.defaults]
        node.args.kw_defaults = [self.visit(d) if d is not None else None for d in node.args.kw_defaults]
        body = []
        for i, s in enumerate(node.body):
            if i == 0 and isinstance(s, ast.Expr) and isinstance(s.value, ast.Constant) and isinstance(s.value.value, str):
                body.append(s)  # docstring
            else:
                body.append(self.visit(s))
        node.body = body
        return node

    def visit_Expr(self, node):
        if isinstance(node.value, ast.Call) and isinstance(node.value.func, ast.Name) and node.value.func.id == "load":
            return node
        return self.generic_visit(node)

    def visit_Constant(self, node):
        if self.r1 and node.value is not Ellipsis:
            return _op(node)
        return node

    def visit_UnaryOp(self, node):
        # keep negative literals as one literal
        if self.r1 and isinstance(node.op, ast.USub) and isinstance(node.operand, ast.Constant) \
                and isinstance(node.operand.value, (int, float)):
            return _op(node)
        return self.generic_visit(node)

    def visit_Call(self, node):
        node.args = [self.visit(a) for a in node.args]
        node.keywords = [ast.keyword(arg=k.arg, value=self.visit(k.value)) for k in node.keywords]
        if isinstance(node.func, ast.Name):
            if self.r2 and node.func.id not in SKIP_CALLEES:
                node.func = _op(node.func)
        else:
            node.func = self.visit(node.func)
        return node

    def visit_Attribute(self, node):
        node.value = self.visit(node.value)
        if self.r3 and isinstance(node.ctx, ast.Load):
            node.value = _op(node.value)
        return node

    def visit_If(self, node):
        self.generic_visit(node)
        if self.r5:
            node.test = _op(node.test)
        return node

    def visit_IfExp(self, node):
        self.generic_visit(node)
        if self.r5:
            node.test = _op(node.test)
        return node

    def visit_comprehension(self, node):
        self.generic_visit(node)
        if self.r5:
            node.ifs = [_op(i) for i in node.ifs]
        return node


def module_names(tree):
    names = []
    for s in tree.body:
        if isinstance(s, ast.Assign):
            for tg in s.targets:
                for n in ast.walk(tg):
                    if isinstance(n, ast.Name) and n.id not in names:
                        names.append(n.id)
        elif isinstance(s, ast.FunctionDef):
            if s.name not in names:
                names.append(s.name)
    return names


def rewrite(src, which):
    """which in 0..6. Returns rewritten source (0 = normalised through ast only)."""
    if not src.strip():
        return src
    tree = ast.parse(src)
    r = {0: {}, 1: dict(r1=True), 2: dict(r2=True), 3: dict(r3=True), 4: {}, 5: dict(r5=True),
         6: dict(r1=True, r2=True, r3=True, r5=True)}[which]
    names = module_names(tree)
    tree = Rewriter(**r).visit(tree)
    ast.fix_missing_locations(tree)
    out = ast.unparse(tree) + "\n"
    if which in (4, 6):
        for n in names:
            out += f"if opaque(False):\n    {n} = None\n"
    return out
