"""Bounded-exhaustive program generators over the Python-shared core (C01; reused by C02/C03...).

Every generator yields (family, src) with src a module-level program that observes
through emit(). `wrap_def` turns a module-level program into its inside-a-function form.
"""
import itertools

# ---------------------------------------------------------------------------
# helpers


def indent(src, n=1):
    pad = "    " * n
    return "".join(pad + l + "\n" if l.strip() else l + "\n" for l in src.rstrip("\n").split("\n"))


def wrap_def(src):
    """Same program, but executed inside a function body."""
    return "def main():\n" + indent(src) + "main()\n"


# ---------------------------------------------------------------------------
# F1: operator expressions

INTS_FULL = ["0", "1", "-1", "2", "3", "-3", "7", "-7", "2147483647", "2147483648", "-2147483648",
             "-2147483649", "9223372036854775807", "9223372036854775808", "-9223372036854775808",
             "18446744073709551616", "100000000000000000000"]
INTS_SMALL = ["0", "1", "-1", "2", "-7", "2147483647", "-2147483648", "9223372036854775808"]
STRS = ['""', '"a"', '"ab"', '"abc"', '"%d"', '"%s"', '"x%dy%s"']
LISTS = ["[]", "[1]", "[1, 2]", "[2, 1, 3]"]
TUPLES = ["()", "(1,)", "(1, 2)"]
DICTS = ["{}", "{1: 2}", '{"a": 1, "b": 2}']
OTHER = ["None"]

BIN_OPS = ["+", "-", "*", "//", "%", "&", "|", "^", "<<", ">>", "==", "!=", "<", "<=", ">", ">=",
           "in", "not in", "and", "or"]
UN_OPS = ["-", "+", "~", "not "]


def is_int_lit(s):
    return s.lstrip("-").isdigit()


def _size_ok(op, a, b):
    """Static size estimator: skip results that are huge by specification."""
    if op == "*":
        for x, y in ((a, b), (b, a)):
            if is_int_lit(x) and not is_int_lit(y) and abs(int(x)) > 64:
                return False
    if op == "<<":
        if is_int_lit(b) and int(b) > 256:
            return False
    return True


def _kind(x):
    if is_int_lit(x):
        return "int"
    if x[0].isdigit() or (x[0] == "-" and x[1].isdigit()):
        return "float"
    return {'"': "str", "[": "list", "(": "tuple", "{": "dict", "N": "none", "T": "bool", "F": "bool"}[x[0]]


def _shared_ok(op, a, b):
    """Whitelist: operator/operand-type combinations whose meaning is shared with Python."""
    ka, kb = _kind(a), _kind(b)
    if op == "|" and not (ka in ("int", "dict") and kb in ("int", "dict")):
        return False  # Starlark: `|` on other values builds a type union (typing extension)
    if op == "%" and ka == "str" and kb in ("list", "dict"):
        return False  # CPython quirk: non-tuple containers are accepted as "mapping" operands
    return True


def f1_depth1(operands=None):
    ops = operands or (INTS_FULL + STRS + LISTS + TUPLES + DICTS + OTHER)
    for a in ops:
        for op in UN_OPS:
            yield "F1.un", f"emit({op}({a}))\n", f"x = opaque({a})\nemit({op}x)\n"
    for a, b in itertools.product(ops, ops):
        for op in BIN_OPS:
            if not _size_ok(op, a, b) or not _shared_ok(op, a, b):
                continue
            lit = f"emit(({a}) {op} ({b}))\n"
            var = f"x = opaque({a})\ny = opaque({b})\nemit(x {op} y)\n"
            yield "F1.bin", lit, var


F1_D2_OPERANDS = ["0", "1", "-1", "3", "-7", "2147483647", "4611686018427387904", '"ab"', "[1]", "(1,)"]
F1_D2_OPS = ["+", "-", "*", "//", "%", "&", "|", "^", "<<", ">>", "==", "<", "and", "or"]


def f1_depth2(operands=None, ops=None):
    """(a op1 b) op2 c and a op1 (b op2 c), unparenthesised too (tests precedence)."""
    operands = operands or F1_D2_OPERANDS
    ops = ops or F1_D2_OPS
    for a, b, c in itertools.product(operands, repeat=3):
        for o1, o2 in itertools.product(ops, repeat=2):
            if not (_size_ok(o1, a, b) and _size_ok(o2, b, c)):
                continue
            # without parentheses: the parser decides grouping; chained comparisons excluded
            if o1 in ("==", "<") and o2 in ("==", "<"):
                continue
            if "%" in (o1, o2) and any(_kind(x) in ("list", "dict") for x in (a, b, c)):
                continue
            if "|" in (o1, o2) and not all(_kind(x) == "int" for x in (a, b, c)):
                continue
            if (o1 == "<<" or o2 == "<<") and any(is_int_lit(x) and abs(int(x)) > 64 for x in (a, b, c)):
                continue
            if (o1 == "*" or o2 == "*") and not all(is_int_lit(x) for x in (a, b, c)) and \
                    any(is_int_lit(x) and abs(int(x)) > 64 for x in (a, b, c)):
                continue
            yield "F1.d2", f"emit({a} {o1} {b} {o2} {c})\n", \
                f"x = opaque({a})\ny = opaque({b})\nz = opaque({c})\nemit(x {o1} y {o2} z)\n"


# ---------------------------------------------------------------------------
# F2: indexing and slicing

def _osl(a):
    return "" if a == "None" else f"opaque({a})"


def f2_slices(max_len=4, rng=range(-5, 6)):
    idx = ["None"] + [str(i) for i in rng]
    seqs = []
    for n in range(max_len + 1):
        seqs.append(("list", "[" + ", ".join(str(i) for i in range(n)) + "]"))
        seqs.append(("tuple", "(" + "".join(f"{i}, " for i in range(n)) + ")"))
        seqs.append(("str", '"' + "abcdefg"[:n] + '"'))
    seqs.append(("ustr", '"a\\u00e9\\U0001F600z"'))
    for kind, s in seqs:
        for i in [str(i) for i in rng] + ['"a"']:
            yield "F2.index", f"emit(({s})[{i}])\n", f"s = opaque({s})\ni = opaque({i})\nemit(s[i])\n"
        for a, b, c in itertools.product(idx, repeat=3):
            sl = f"{'' if a == 'None' else a}:{'' if b == 'None' else b}:{'' if c == 'None' else c}"
            yield "F2.slice", f"emit(({s})[{sl}])\n", \
                f"s = opaque({s})\nemit(s[{_osl(a)}:{_osl(b)}:{_osl(c)}])\n"


# ---------------------------------------------------------------------------
# F3: method / builtin calls with per-function argument catalogues

S_RECV = ['""', '"a"', '"abc"', '"a b  c"', '" ab "', '"a,b,,c"', '"aXbXc"', '"Hello World"', '"abcabc"',
          '"line1\\nline2\\r\\nl3"', '"123"', '"aB1"', '"  "']
S_ARG = ['""', '"a"', '"b"', '"bc"', '","', '" "', '"X"', '"ab"']
N_ARG = ["0", "1", "2", "-1", "-2", "5", "None"]


def _tuples(cats):
    return itertools.product(*cats)


STR_METHODS = {
    # name: list of argument-catalogue tuples (each a list of per-position catalogues)
    "split": [[], [S_ARG[1:] + ["None"]], [S_ARG[1:] + ["None"], ["-1", "0", "1", "2"]]],
    "rsplit": [[], [S_ARG[1:] + ["None"]], [S_ARG[1:] + ["None"], ["-1", "0", "1", "2"]]],
    "strip": [[], [S_ARG]],
    "lstrip": [[], [S_ARG]],
    "rstrip": [[], [S_ARG]],
    "find": [[S_ARG], [S_ARG[1:], N_ARG], [S_ARG[1:], N_ARG, N_ARG]],
    "rfind": [[S_ARG], [S_ARG[1:], N_ARG], [S_ARG[1:], N_ARG, N_ARG]],
    "index": [[S_ARG], [S_ARG[1:], N_ARG], [S_ARG[1:], N_ARG, N_ARG]],
    "rindex": [[S_ARG], [S_ARG[1:], N_ARG], [S_ARG[1:], N_ARG, N_ARG]],
    "count": [[S_ARG], [S_ARG[1:], N_ARG], [S_ARG[1:], N_ARG, N_ARG]],
    "replace": [[S_ARG, S_ARG], [S_ARG, S_ARG, ["0", "1", "2"]]],
    "startswith": [[S_ARG], [['("a", "b")', '()', '("",)']]],
    "endswith": [[S_ARG], [['("c", "b")', '()', '("",)']]],
    "upper": [[]], "lower": [[]], "title": [[]], "capitalize": [[]],
    "partition": [[S_ARG]], "rpartition": [[S_ARG]],
    "splitlines": [[], [["True", "False"]]],
    "isalpha": [[]], "isdigit": [[]], "isalnum": [[]], "islower": [[]], "isupper": [[]],
    "isspace": [[]], "istitle": [[]],
    "join": [[['[]', '["x"]', '["x", "y", "z"]', '("p", "q")', '[1]', '{"k": 1}']]],
    "removeprefix": [[S_ARG]], "removesuffix": [[S_ARG]],
    "elems": None,  # not in python
}

FORMAT_CASES = [
    ('"{}"', ["1", '"a"', "None", "[1, 2]", "(1,)", "True"]),
    ('"{} {}"', ["1, 2", '"a", "b"', "1"]),
    ('"{0} {1} {0}"', ["1, 2", '"a"', "1, 2, 3"]),
    ('"{a} {b}"', ["a=1, b=2", "a=1", "b=2, a=1, c=3"]),
    ('"{{}} {}"', ["1"]),
    ('"{a}{}"', ["1, a=2"]),
    ('"{"', ["1"]), ('"}"', ["1"]), ('"{0} {}"', ["1, 2"]), ('"{} {0}"', ["1, 2"]),
]

INTERP_CASES = [
    ('"%d"', ["1", "-1", "(1,)", '"a"', "None", "(1, 2)", "18446744073709551616", "[1]"]),
    ('"%s"', ["1", '"a"', "None", "(1,)", "[1, 2]", "(1, 2)", "{1: 2}", "True", "()"]),
    ('"%x"', ["255", "-255", '"a"', "18446744073709551616"]),
    ('"%X"', ["255", "-255"]),
    ('"%o"', ["8", "-8"]),
    ('"%%"', ["()", "1"]),
    ('"%d %s"', ["(1, 2)", "(1,)", "(1, 2, 3)", "1", '("a", 1)']),
    ('"a%sb%dc"', ['("x", 1)']),
    ('"%"', ["1", "()"]),
    ('"%z"', ["1"]),
    ('"%s %%"', ["1", '"q"']),
    ('"%r"', ["1", "[1, 2]"]),
    ('"%e"', ["1"]),
    ('"abc"', ["()", "1"]),
]

L_RECV = ["[]", "[1]", "[1, 2, 3]", "[3, 1, 2, 1]"]
V_ARG = ["0", "1", "2", "3", "-1", "None", '"a"', "[1]"]
LIST_METHODS = {
    "append": [[V_ARG]],
    "extend": [[["[]", "[1, 2]", "(3,)", "{5: 6}", "1", "range(2)"]]],
    "insert": [[N_ARG[:-1] + ["100", "-100"], ["9"]]],
    "pop": [[], [["0", "1", "2", "5", "100"]]],
    "remove": [[V_ARG]],
    "index": [[V_ARG], [V_ARG, N_ARG[:-1]], [V_ARG, N_ARG[:-1], N_ARG[:-1]]],
    "clear": [[]],
}

D_RECV = ["{}", "{1: 2}", '{"a": 1, "b": 2, 3: [4]}']
K_ARG = ["1", '"a"', '"zz"', "3", "None", "(1, 2)", "[1]"]
DICT_METHODS = {
    "get": [[K_ARG], [K_ARG, ["7"]]],
    "pop": [[K_ARG], [K_ARG, ["7"]]],
    "setdefault": [[K_ARG], [K_ARG, ["7"]]],
    "update": [[], [["{}", "{1: 9, 5: 6}", "[(1, 9)]", "[(1, 2, 3)]", "[1]", "1"]],
               [["{1: 9}"], ["{2: 3}"]]],
    "keys": [[]], "values": [[]], "items": [[]], "clear": [[]],
}
LISTIFY = {"keys", "values", "items"}


def f3_methods():
    for recvs, table, fam in ((S_RECV, STR_METHODS, "F3.str"), (L_RECV, LIST_METHODS, "F3.list"),
                              (D_RECV, DICT_METHODS, "F3.dict")):
        for m, shapes in table.items():
            if shapes is None:
                continue
            for r in recvs:
                for shape in shapes:
                    for args in _tuples(shape):
                        if fam == "F3.dict" and r == "{}" and "[1]" in args:
                            continue  # CPython skips hashing the key of a lookup in an empty dict
                        call = f"r.{m}({', '.join(args)})"
                        if m in LISTIFY:
                            call = f"list({call})"
                        lit_call = f"({r}).{m}({', '.join(args)})"
                        if m in LISTIFY:
                            lit_call = f"list({lit_call})"
                        # receiver emitted afterwards too: methods mutate
                        yield fam, f"emit({lit_call})\n", f"r = opaque({r})\nemit({call})\nemit(r)\n"
    # update with keyword arguments
    for r in D_RECV:
        yield "F3.dict", f"r = {r}\nr.update(a=5, z=6)\nemit(r)\n", \
            f"r = opaque({r})\nr.update([(1, 0)], a=5)\nemit(r)\n"
    for f, argss in FORMAT_CASES:
        for a in argss:
            yield "F3.format", f"emit({f}.format({a}))\n", f"f = opaque({f})\nemit(f.format({a}))\n"
    for f, argss in INTERP_CASES:
        for a in argss:
            yield "F3.interp", f"emit({f} % {a})\n", f"f = opaque({f})\na = opaque({a})\nemit(f % a)\n"


SEQ_ARG = ["[]", "[3, 1, 2]", "(2, 1)", "{2: 1, 1: 2}", "range(3)", "[[2, 1], [1, 3], [1, 2]]",
           '["b", "a", "B"]', "[1, 1, 0]", "1", "None", "[(1, 2), (1, 1)]", '[1, "a"]']
BUILTIN_CASES = {
    "len": [[SEQ_ARG]],
    "list": [[], [SEQ_ARG]],
    "tuple": [[], [SEQ_ARG]],
    "sorted": [[SEQ_ARG], [SEQ_ARG, ["reverse=True", "reverse=False", "key=lambda x: -x", "key=len",
                                     "key=lambda x: 0"]],
               [SEQ_ARG, ["key=lambda x: 0"], ["reverse=True"]]],
    "reversed": [[SEQ_ARG]],
    "enumerate": [[SEQ_ARG], [SEQ_ARG, ["1", "-5"]]],
    "zip": [[], [SEQ_ARG], [SEQ_ARG, ["[7, 8]", "()"]], [["[1, 2, 3]"], ["[4, 5]"], ["(6,)"]]],
    "min": [[SEQ_ARG], [["1"], ["2", "0", '"a"']], [["3"], ["1"], ["2"]], [SEQ_ARG, ["key=lambda x: -x", "key=len"]]],
    "max": [[SEQ_ARG], [["1"], ["2", "0", '"a"']], [["3"], ["1"], ["2"]], [SEQ_ARG, ["key=lambda x: -x", "key=len"]]],
    "any": [[SEQ_ARG]], "all": [[SEQ_ARG]],
    "bool": [[], [SEQ_ARG + ["0", '""', '"a"', "()"]]],
    "abs": [[["0", "-1", "1", "-2147483648", "-9223372036854775808", '"a"', "None"]]],
    "str": [[["0", "-1", "18446744073709551616", "None", "True", "[1, 2]", "(1,)", "()", "{1: 2}", '"a"',
              "[]", "{}", "(1, 2)", "[None, True]", "[[1], (2,)]"]]],
    "repr": [[["0", "-1", "18446744073709551616", "None", "True", "[1, 2]", "(1,)", "()", "{1: 2}",
               "[None, True]"]]],
    "int": [[["0", "-5", "True", "False", '"12"', '"-12"', '"+12"', '"1F"', '"017"',
              '""', '"a"', '"1 2"', '"99999999999999999999"', "None", "[1]", '"-"', '"--1"', '"0"', '"-0"', '"00"']],
            [['"12"', '"-12"', '"0x1F"', '"-0x1F"', '"1F"', '"0b101"', '"101"', '"0o17"', '"17"', '"z"', '"Z"', '""',
              '"0"', '"0x"', '"+0b1"', '"1_0"', '"0b2"', '"0o8"', '"10000000000000000000000"'],
             ["0", "2", "8", "10", "16", "36", "1", "37", "-1"]]],
    "range": [[["0", "3", "-1"]], [["1", "-2"], ["4", "-5", "1"]], [["0", "5"], ["5", "0", "-5"], ["2", "-2", "0", "1", "-1"]]],
    "dict": [[], [["{1: 2}", "[(1, 2), (3, 4)]", "[(1, 2), (1, 3)]", "[1]", "[(1,)]", "1", "()"]],
             [["{1: 2}", "[]"], ["a=1"]], [["a=1"], ["b=2"]]],
}
LISTIFY_B = {"reversed", "enumerate", "zip", "range"}


def f3_builtins():
    for f, shapes in BUILTIN_CASES.items():
        for shape in shapes:
            for args in _tuples(shape):
                call = f"{f}({', '.join(args)})"
                if f in LISTIFY_B:
                    call = f"list({call})"
                yield "F3.builtin", f"emit({call})\n", f"g = opaque({f})\n" + f"emit({call.replace(f + '(', 'g(', 1) if f not in LISTIFY_B else 'list(g(' + ', '.join(args) + '))'})\n"
    # range: len / index / in / slicing / negative index
    for r in ["range(0)", "range(5)", "range(1, 10, 3)", "range(10, 0, -3)", "range(-3, 3)"]:
        for e in ["len({r})", "({r})[0]", "({r})[-1]", "({r})[2]", "list(({r})[1:3])", "list(({r})[::-1])",
                  "list(({r})[::2])", "3 in {r}", "4 in {r}", "-3 in {r}", '"a" in {r}', "list(({r})[5:1:-2])",
                  "bool({r})", "[x for x in {r}]", "list(reversed({r}))", "sorted({r}, reverse=True)",
                  "({r})[10]", "max({r})", "min({r})"]:
            ex = e.format(r=r)
            yield "F3.range", f"emit({ex})\n", f"r = opaque({r})\nemit({e.format(r='r')})\n"


# ---------------------------------------------------------------------------
# F4: list / dict histories (all method sequences up to depth d), aliased

LIST_OPS = ["x.append(1)", "x.append(y)", "x.extend([2, 3])", "x.insert(0, 5)", "x.insert(-1, 6)", "x.pop()",
            "x.pop(0)", "x.remove(1)", "x.clear()", "x += [7]", "x[0] = 8", "x[-1] += 1", "x = x + [9]",
            "y = x", "y = list(x)", "x.extend(y)", "x[0], x[-1] = x[-1], x[0]", "x = x[1:]", "x = x * 2"]
DICT_OPS = ["d[1] = 1", 'd["a"] = 2', "d[1] = 3", "d.pop(1)", "d.pop(1, None)", "d.setdefault(2, [])",
            "d.setdefault(2, []).append(1)", "d.update({1: 4, 3: 5})", "d.clear()", "e = d", "e = dict(d)",
            "d[(1, 2)] = e", "d |= {9: 9}", "d = d | {8: 8}", 'd["a"] += 1', "d.update(e)"]


def f4_histories(depth):
    for n in range(1, depth + 1):
        for seq in itertools.product(LIST_OPS, repeat=n):
            body = "x = [1, 2]\ny = x\n" + "".join(f"{op}\nemit([x, y])\n" for op in seq)
            yield "F4.list", body, None
        for seq in itertools.product(DICT_OPS, repeat=n):
            body = 'd = {1: 0, "a": 0}\ne = d\n' + "".join(f"{op}\nemit([d, e])\n" for op in seq)
            yield "F4.dict", body, None


# ---------------------------------------------------------------------------
# F5: control-flow skeletons: every statement tree with exactly n statements (nested ones counted)

F5_SIMPLE = ["x += 1", "y = x", "emit(x)", "x = y * 2"]
F5_COND = ["x > y", "x % 2"]
F5_ITER = ["[1, 2, 3]", "range(x)"]
_f5_memo = {}


def _f5_blocks(n, in_loop, in_def):
    """All blocks (lists of lines) containing exactly n statements."""
    key = (n, in_loop, in_def)
    if key in _f5_memo:
        return _f5_memo[key]
    out = []
    if n == 0:
        out = [[]]
    else:
        # first statement consumes k statements, rest n-k
        for k in range(1, n + 1):
            firsts = _f5_stmt(k, in_loop, in_def)
            rests = _f5_blocks(n - k, in_loop, in_def)
            for f in firsts:
                if f and f[0] in ("break", "continue") or (f and f[0].startswith("return")):
                    # statements after a jump are dead: only allow as last statement
                    if n - k > 0:
                        continue
                for r in rests:
                    out.append(f + r)
    _f5_memo[key] = out
    return out


def _f5_stmt(k, in_loop, in_def):
    """All single statements made of exactly k statements (k=1: simple)."""
    out = []
    if k == 1:
        out = [[s] for s in F5_SIMPLE]
        if in_loop:
            out += [["break"], ["continue"]]
        if in_def:
            out += [["return x"]]
        return out
    ind = lambda b: ["    " + l for l in b]
    # if with k-1 statements split between then / else (then non-empty)
    for t in range(1, k):
        e = k - 1 - t
        for c in F5_COND:
            for tb in _f5_blocks(t, in_loop, in_def):
                if e == 0:
                    out.append([f"if {c}:"] + ind(tb))
                else:
                    for eb in _f5_blocks(e, in_loop, in_def):
                        out.append([f"if {c}:"] + ind(tb) + ["else:"] + ind(eb))
    for it in F5_ITER:
        for b in _f5_blocks(k - 1, True, in_def):
            out.append([f"for i in {it}:"] + ind(b))
    return out


def f5_control(n_max):
    for in_def in (False, True):
        for n in range(1, n_max + 1):
            for blk in _f5_blocks(n, False, in_def):
                body = "x = 1\ny = 0\n" + "\n".join(blk) + "\nemit([x, y])\n"
                if in_def:
                    src = "def main():\n" + indent(body) + "emit(main())\n"
                else:
                    src = body
                yield "F5", src, None


# ---------------------------------------------------------------------------
# F6: scoping skeletons

def f6_scoping():
    """Nested def / lambda / comprehension with names from {x, y}: binding and use placements."""
    names = ["x", "y"]
    # shape: outer def with params/default/local assignment; inner construct uses a name
    inner_kinds = [
        ("def", "def g({p}):\n        {pre}\n        return {use}\n    r = g({a})"),
        ("lambda", "g = lambda {p}: {use}\n    r = g({a})"),
        ("compr", "r = [{use} for {p0} in [10, 20]]"),
        ("compr2", "r = [{use} for {p0} in [10, 20] for y in [{p0}, 3]]"),
        ("dcompr", "r = {{{p0}: {use} for {p0} in [10, 20]}}"),
        ("lamcompr", "fs = [lambda: {use} for {p0} in [10, 20]]\n    r = [f() for f in fs]"),
        ("lamdefault", "fs = [lambda {p0}={p0}: {use} for {p0} in [10, 20]]\n    r = [f() for f in fs]"),
        ("defdefault", "def g(q=[{use} for {p0} in [10, 20]]):\n        return q\n    r = g()"),
    ]
    uses = ["x", "y", "x + y", "(x, y)"]
    for k, tmpl in inner_kinds:
        for use in uses:
            for p0 in names:
                for outer_assign_x, outer_assign_y in itertools.product(["none", "before", "after"], repeat=2):
                    for glob_y in (True, False):
                        lines = []
                        lines.append("x = 100")
                        if glob_y:
                            lines.append("y = 200")
                        elif "y" in use and outer_assign_y == "none" and not (k in ("compr2",) or p0 == "y"):
                            continue  # undefined global: static error in Starlark, dynamic in Python
                        lines.append("def f(x=x):" if outer_assign_x == "none" else "def f():")
                        if outer_assign_x == "before":
                            lines.append("    x = 1")
                        if outer_assign_y == "before":
                            lines.append("    y = 2")
                        if k == "def":
                            for p, a, pre in [("", "", "pass"), (p0, "5", "pass"), (p0 + "=7", "", "pass"),
                                              ("", "", p0 + " = 9")]:
                                body = tmpl.format(p=p, a=a, pre=pre, use=use, p0=p0)
                                yield from _f6_finish(lines, body, outer_assign_x, outer_assign_y)
                        elif k == "lambda":
                            for p, a in [("", ""), (p0, "5"), (p0 + "=7", "")]:
                                body = tmpl.format(p=p, a=a, use=use, p0=p0)
                                yield from _f6_finish(lines, body, outer_assign_x, outer_assign_y)
                        else:
                            body = tmpl.format(use=use, p0=p0)
                            yield from _f6_finish(lines, body, outer_assign_x, outer_assign_y)


def _f6_finish(lines, body, ax, ay):
    ls = list(lines) + ["    " + body]
    if ax == "after":
        ls.append("    x = 11")
    if ay == "after":
        ls.append("    y = 22")
    ls.append("    return r")
    ls.append("emit(f())")
    ls.append("emit(x)")
    yield "F6", "\n".join(ls) + "\n", None


# ---------------------------------------------------------------------------
# F7: comprehension clause combinations

def f7_comprehensions():
    srcs = ["[1, 2, 3]", "[(1, 2), (3, 4)]", "range(3)", "{1: 2, 4: 5}", "[]", "[[1, 2], [3]]"]
    clauses = []
    for s in srcs:
        clauses.append(f"for a in {s}")
        clauses.append(f"for a, b in {s}")
    clauses += ["for b in a", "for b in range(a)", "if a", "if a != 2", "if b", "for c in [a, b]", "for (a, (b, c)) in [(1, (2, 3))]"]
    results = ["a", "(a, b)", "[a]", "a + 1", "c"]
    pre = "a = 70\nb = 80\nc = 90\n"
    for n in (1, 2, 3):
        for cl in itertools.product(clauses, repeat=n):
            if not cl[0].startswith("for") or " in a" in cl[0] or "range(a)" in cl[0] or "[a, b]" in cl[0]:
                continue
            for r in results:
                if n == 3 and r not in ("(a, b)", "c"):
                    continue
                yield "F7.list", pre + f"emit([{r} {' '.join(cl)}])\nemit([a, b, c])\n", None
                if n <= 2 and r in ("a", "(a, b)"):
                    yield "F7.dict", pre + f"emit({{{r}: a {' '.join(cl)}}})\nemit([a, b, c])\n", None


# ---------------------------------------------------------------------------
# F9: functions: parameters, defaults, closures, recursion

def f9_functions():
    progs = [
        # mutable default shared across calls
        "def f(a, l=[]):\n    l.append(a)\n    return l\nemit(f(1))\nemit(f(2))\nemit(f(3, []))\nemit(f(4))\n",
        # default evaluated at def time
        "n = 1\ndef f(a=n):\n    return a\nn = 2\nemit(f())\n",
        # late binding closures
        "fs = [lambda: i for i in range(3)]\nemit([f() for f in fs])\n",
        "def mk():\n    fs = []\n    for i in range(3):\n        fs.append(lambda: i)\n    return fs\nemit([f() for f in mk()])\n",
        "def mk():\n    fs = []\n    for i in range(3):\n        def g(j=i):\n            return (i, j)\n        fs.append(g)\n    return fs\nemit([f() for f in mk()])\n",
        # recursion
        "def fib(n):\n    return n if n < 2 else fib(n - 1) + fib(n - 2)\nemit([fib(i) for i in range(12)])\n",
        "def fact(n):\n    if n == 0:\n        return 1\n    return n * fact(n - 1)\nemit(fact(30))\n",
        "def ev(n):\n    return True if n == 0 else od(n - 1)\ndef od(n):\n    return False if n == 0 else ev(n - 1)\nemit([ev(7), od(7), ev(30)])\n",
        # counter closure via list cell
        "def counter():\n    c = [0]\n    def inc():\n        c[0] += 1\n        return c[0]\n    return inc\na = counter()\nb = counter()\nemit([a(), a(), b(), a()])\n",
        # args/kwargs
        "def f(a, b=2, *args, **kwargs):\n    return [a, b, args, kwargs]\nemit(f(1))\nemit(f(1, 3, 4, 5, x=6))\nemit(f(*[1, 2, 3], **{'k': 1}))\nemit(f(b=1, a=2))\n",
        "def f(a, *, k, j=3):\n    return [a, k, j]\nemit(f(1, k=2))\nemit(f(k=1, a=2, j=4))\n",
        "def f(*, k):\n    return k\nemit(f(k=1))\n",
        # evaluation order of arguments and operands
        "def t(x):\n    emit(x)\n    return x\nemit(t(1) + t(2) * t(3))\nemit([t(4), t(5)][t(0)])\nemit({t(6): t(7)})\nemit(t(8) if t(0) else t(9))\nemit(t(0) and t(1))\nemit(t(0) or t(2))\n",
        "def t(x):\n    emit(x)\n    return x\ndef f(a, b, c=t(10), *d, **e):\n    return [a, b, c, d, e]\nemit(f(t(1), t(2), *[t(3), t(4)], **{'z': t(6)}))\nemit(f(t(1), k=t(5), b=t(7)))\n",
        "def t(x):\n    emit(x)\n    return x\nl = [0, 0]\nl[t(0)] = t(1)\nl[t(1)] += t(5)\nemit(l)\na, b = t(1), t(2)\nemit(t([1, 2, 3])[t(0):t(2)])\n",
        "def t(x):\n    emit(x)\n    return x\nemit(t(1) < t(2))\nemit(t(1) in [t(2), t(1)])\nemit(not t(0))\nemit(-t(3))\nemit(t('%d %d') % (t(1), t(2)))\nemit(t([3, 1]).index(t(1)))\n",
        # shadowing of builtins and globals
        "len = 5\nemit(len)\n",
        "def f(len):\n    return len\nemit(f(3))\nemit(len([1]))\n",
        "def f():\n    list = [1]\n    return list\nemit(f())\nemit(list((1, 2)))\n",
        # unbound local
        "x = 1\ndef f():\n    emit(x)\n    x = 2\nf()\n",
        "def f(c):\n    if c:\n        v = 1\n    return v\nemit(f(True))\nemit(f(False))\n",
        "def f():\n    for i in []:\n        pass\n    return i\nemit(f())\n",
        "def f():\n    [i for i in [1]]\n    return i\ni = 5\nemit(f())\n",
        # loop var persists after loop
        "for i in range(3):\n    pass\nemit(i)\n",
        "def f():\n    for i in range(3):\n        for j in range(2):\n            if j == 1:\n                break\n        if i == 1:\n            continue\n        emit((i, j))\n    return (i, j)\nemit(f())\n",
        # return inside nested loops
        "def f(n):\n    for i in range(5):\n        for j in range(5):\n            if i * j == n:\n                return (i, j)\n    return None\nemit([f(4), f(6), f(7), f(0)])\n",
        # tuple unpack
        "a, (b, c), [d] = 1, (2, 3), [4]\nemit([a, b, c, d])\n",
        "a, b = [1, 2, 3]\n",
        "a, b = 1\n",
        "(a, b), c = [1], 2\n",
        "for a, b in [(1, 2), (3,)]:\n    emit(a)\n",
        # aug-assign semantics
        "a = [1]\nb = a\na += [2]\nemit([a, b])\na = a + [3]\nemit([a, b])\n",
        "a = (1,)\nb = a\na += (2,)\nemit([a, b])\n",
        "s = 'a'\nt = s\ns += 'b'\ns *= 2\nemit([s, t])\n",
        "d = {1: [0]}\nd[1] += [5]\nemit(d)\nd[1][0] -= 3\nemit(d)\n",
        "x = 7\nx //= 2\nx %= 2\nx <<= 4\nx |= 3\nx &= 6\nx ^= 5\nx >>= 1\nx -= 9\nx *= -3\nemit(x)\n",
        # conditional expression nesting
        "emit([1 if a else 2 if b else 3 for a in [0, 1] for b in [0, 1]])\n",
        "emit([(a and b or c) for a in [0, 1] for b in [0, 2] for c in [0, 3]])\n",
        "emit([not a == b for a in [0, 1] for b in [0, 1]])\n",
        "emit(- 2 * 3 + - 4 % 3)\n",
        # strings
        "emit('ab' + 'c' * 3)\n",
        "emit(len('a\\u00e9\\U0001F600'))\nemit('a\\u00e9\\U0001F600'[2])\nemit('a\\u00e9\\U0001F600'[-1:])\n",
        "emit('abc' < 'abd')\nemit('a' < 'B')\nemit('' < 'a')\nemit(sorted(['b', 'a', 'C', '']))\n",
        "emit([1, 2] < [1, 3])\nemit((1, 2) < (1,))\nemit([] < [0])\nemit(sorted([(2, 1), (1, 9), (1, 2)]))\n",
        "emit([1] == [1])\nemit((1,) == [1])\nemit({1: 2} == {1: 2})\nemit({1: 2, 3: 4} == {3: 4, 1: 2})\nemit(None == None)\nemit('a' == 'a')\n",
        "emit(1 < 'a')\n",
        "emit([1] < (1,))\n",
        "emit({} < {})\n",
        "emit(None < None)\n",
        # int edge
        "emit(-7 // 2)\nemit(-7 % 2)\nemit(7 // -2)\nemit(7 % -2)\nemit(-7 // -2)\nemit(-7 % -2)\n",
        "emit(1 << 100)\nemit(-1 << 70)\nemit((1 << 100) >> 98)\nemit(-1 >> 70)\nemit(-(1 << 64) >> 3)\n",
        "emit(0x7fffffff + 1)\nemit(-0x80000000 - 1)\nemit(0xffffffff * 0xffffffff)\nemit(0o17)\nemit(0b101)\n",
        "emit(~0)\nemit(~-1)\nemit(~(1 << 64))\nemit(-(1<<63) & ((1<<64)-1))\nemit((1<<64) | -1)\nemit((1 << 64) ^ -(1 << 64))\n",
    ]
    for p in progs:
        yield "F9", p, None


# ---------------------------------------------------------------------------
# F7b: comprehension clause orders with traced (order-observable) conditions, up to 4 clauses

def f7b_traced():
    pre = "def t(k, v):\n    emit(k)\n    return v\na = 70\nb = 80\n"
    clauses = ["for a in [1, 2]", "for b in [0, 1, 2]", "if t(1, a != 2)", "if t(2, b)", "if t(3, a > b)", "if t(4, 6 // b)",
               "for b in t(5, [a, 0])"]
    for n in (1, 2, 3, 4):
        for cl in itertools.product(clauses, repeat=n):
            if not cl[0].startswith("for a"):
                continue
            if sum(c.startswith("for") for c in cl) > 2:
                continue
            body = " ".join(cl)
            yield "F7b", pre + f"emit([(a, b) {body}])\n", None
            if n >= 3:
                yield "F7b", pre + f"emit({{(a, b): a {body}}})\n", None


# ---------------------------------------------------------------------------
# F10: sizes around internal thresholds (small-map index at 16/17, insertion sort at 20/21, 32/33, 64/65)

SIZES = [0, 1, 2, 7, 8, 9, 15, 16, 17, 18, 19, 20, 21, 22, 31, 32, 33, 34, 40, 63, 64, 65, 100]


def f10_sizes():
    for n in SIZES:
        yield "F10.sort", f"l = [(i * 37 % 11, i) for i in range({n})]\nemit(sorted(l, key=lambda p: p[0]))\n" \
            f"emit(sorted(l, key=lambda p: p[0], reverse=True))\nemit(sorted(range({n}), key=lambda x: x % 3))\n" \
            f"emit(sorted(l))\nemit(sorted([p[0] for p in l], reverse=True))\nemit(sorted(l, key=lambda p: -p[0] // 3))\n", None
        yield "F10.minmax", f"l = [(i * 37 % 7, i) for i in range({n})]\nemit(max(l, key=lambda p: p[0]) if l else 0)\n" \
            f"emit(min(l, key=lambda p: p[0]) if l else 0)\nemit(max(l) if l else 0)\nemit(min(l) if l else 0)\n", None
        yield "F10.dict", f"d = {{}}\nfor i in range({n}):\n    d[i * 7 % 23 if i % 3 else str(i)] = i\nemit(d)\n" \
            f"ks = list(d.keys())\nfor k in ks[::3]:\n    d.pop(k)\nemit(d)\nfor k in ks[:5]:\n    d[k] = -1\nemit(d)\n" \
            f"emit([k in d for k in ks])\nemit([d.get(k) for k in ks])\nemit(list(d.items())[-3:])\nemit(len(d))\n" \
            f"e = dict(d)\ne.update({{'z': 1}})\nemit([list(e.keys())[:4], len(e), e == d])\n" \
            f"emit(dict(d, zz=1, a=2) == dict(list(d.items()) + [('zz', 1), ('a', 2)]))\n" \
            f"emit({{k: v for k, v in d.items() if v != -1}})\n", None
        yield "F10.dict2", f"d = {{i: i for i in range({n})}}\nif {n} > 1:\n    d.pop({n} - 2)\n    emit(d.get({n} - 1))\n" \
            f"    d[{n} - 1] = 'new'\n    emit(d[{n} - 1])\n    emit(list(d.keys())[-2:])\nemit(d)\n" \
            f"d[-1] = 0\nemit(list(d.keys()))\nd.clear()\nd[5] = 5\nemit(d)\n", None
        yield "F10.list", f"l = list(range({n}))\nemit(l[::-1])\nemit(l[1::2])\nemit(l[-3:])\nl.insert({n} // 2, 'm')\nemit(l)\n" \
            f"l.extend(l[:2])\nemit(l)\nemit([l.index(x) for x in l[:3]])\nemit(l * 2 == l + l)\nemit(list(reversed(l)))\n" \
            f"emit(list(enumerate(l))[-2:])\nemit(list(zip(l, l[1:]))[-2:])\nemit(any(l))\nemit(all(l))\n", None
        yield "F10.str", f"s = ','.join([str(i) for i in range({n})])\nemit(s)\nemit(s.split(','))\nemit(s.rsplit(',', 2))\n" \
            f"emit(s.find('9,'))\nemit(s.count('1'))\nemit(s.replace('1', 'xy', 3))\nemit(len(s))\nemit(s[::-2])\n" \
            f"emit(('%s' * {n}) % tuple(range({n})) if {n} else '')\nemit(s.upper().lower() == s)\nemit(s.partition('5'))\n" \
            f"emit('ab' * {n})\nemit(('ab' * {n}).rfind('ba'))\nemit(s.startswith('0,1') or {n} < 2)\n", None
        yield "F10.tuple", f"t = tuple(range({n}))\nemit(t)\nemit(t + t == t * 2)\nemit(t[::-1][:4])\nemit(len(t))\n" \
            f"emit({n} - 1 in t)\nemit(t < t + (0,))\nemit(sorted(t, reverse=True)[:3])\n", None


def f11_definite_assignment():
    """A local that is assigned on some paths only, mentioned in a conditionally evaluated position (right operand of and/or,
    a branch of a conditional expression, a comprehension over a possibly empty iterable, a guarded statement), and read later:
    the read must fail cleanly when the local was never assigned - whatever the definite-assignment analysis concluded from the
    conditional mention."""
    assigns = ["if c:\n    x = [1]", "for _ in ([1] if c else []):\n    x = [1]", "if c:\n    x = [1]\nelse:\n    pass",
               "if not c:\n    pass\nelse:\n    x = [1]"]
    uses = ["ok = c and x", "ok = c and x and 1", "ok = (not c) or x", "ok = x if c else 0", "ok = 0 if not c else x",
            "ok = [x for _ in ([1] if c else [])]", "ok = c and [x]", "ok = c and (x or 1)", "ok = (c and x) or 0", "ok = c and len(x)",
            "ok = 0\nif c:\n    ok = x", "ok = 0\nif c and x:\n    ok = 1", "ok = [c and x]", "ok = {1: c and x}", "ok = ident(c and x)",
            "ok = c and x[0]", "ok = c and x == [1]", "ok = c and not x", "ok = 1 if c and x else 0", "ok = [1 for _ in [1] if c and x]",
            "ok = c and (lambda: x)()", "ok = (c or 0) and x", "ok = c and (c and x)", "ok = not (c and x)", "ok = [c and x, 0][0]"]
    finals = ["return [ok, x]", "y = x\nreturn [ok, y]", "return [ok, x if True else 0]", "return [ok] + [x]"]
    for a in assigns:
        for u in uses:
            for r in finals:
                for order in ("au", "ua"):
                    body = (a + "\n" + u) if order == "au" else (u + "\n" + a)
                    src = "def ident(v):\n    return v\ndef f(c):\n" + indent(body + "\n" + r) + "emit(f(True))\nemit(f(False))\n"
                    yield "F11", src, None


def f12_evaluation_order():
    """Every sub-expression is wrapped in a tracer: the ORDER in which operands, indices, targets and right-hand sides are
    evaluated (and what has been evaluated when an error strikes) is part of the transcript."""
    pre = ("def t(x):\n    emit(['t', x])\n    return x\ndef f3(a, b = 0, k = 0):\n    return [a, b, k]\n")
    exprs = ["t(1) + t(2) * t(3)", "[t(1), t(2)]", "{t(1): t(2), t(3): t(4)}", "(t(1), t(2))", "t([1, 2])[t(0)]", "t([1, 2, 3])[t(0):t(2)]",
             "t(1) if t(0) else t(2)", "t(0) and t(1)", "t(1) or t(2)", "t('a').upper()", "t('%s') % t(1)", "f3(t(1), t(2), k = t(3))",
             "[t(i) for i in t([1, 2]) if t(i)]", "t(1) < t(2)", "t(1) in t([1])", "not t(0)", "-t(1)", "f3(*t([1, 2]), **t({'k': 3}))",
             "t([1])[t(5)]", "t({})[t('k')]", "t(1) // t(0) + t(2)", "f3(t(1), t(2), zz = t(3))", "t([3, 1, 2])[t(0)] + t(1)",
             "{t(i): t(i * 2) for i in t([1, 2])}", "t(f3)(t(1))", "t('x').join(t(['a', 'b']))"]
    for e in exprs:
        yield "F12.expr", pre + f"x = {e}\nemit(x)\n", None
    for op in ("+=", "-=", "*=", "//=", "%=", "|=", "&="):
        yield "F12.aug", pre + f"a = [7, 2]\na[t(0)] {op} t(3)\nemit(a)\n", None
        yield "F12.aug", pre + f"a = [[7], [2]]\na[t(1)][t(0)] {op} t(3)\nemit(a)\n", None
        yield "F12.aug", pre + f"d = {{'a': 7}}\nd[t('a')] {op} t(3)\nemit(d)\n", None
        yield "F12.aug", pre + f"d = {{'a': 7}}\nd[t('b')] {op} t(3)\nemit(d)\n", None      # the read of the old element fails
        yield "F12.aug", pre + f"a = [7, 2]\na[t(9)] {op} t(3)\nemit(a)\n", None
        yield "F12.aug", pre + (f"a = [7, 2]\ndef bump():\n    a[0] = a[0] + 10\n    return 3\na[0] {op} bump()\nemit(a)\n"), None
        yield "F12.aug", pre + (f"a = [7, 2]\ndef grow():\n    a.insert(0, 100)\n    return 3\na[t(0)] {op} grow()\nemit(a)\n"), None
        yield "F12.aug", pre + f"x = 7\nx {op} t(3)\nemit(x)\n", None
    yield "F12.aug", pre + "a = [[1], [2]]\na[t(0)] += t([5])\nemit(a)\n", None
    yield "F12.aug", pre + "a = ['s']\na[t(0)] += t('u')\nemit(a)\n", None
    yield "F12.aug", pre + "a = [1]\na[t(0)] += t('u')\nemit(a)\n", None
    for st in ["a[t(0)] = t(5)", "a[t(0)], a[t(1)] = t(5), t(6)", "a[t(1)], a[t(0)] = a[t(0)], a[t(1)]", "[a[t(0)], a[t(1)]] = [t(5), t(6)]",
               "a[t(0)] = a[t(1)] = t(5)" if False else "a[t(0)] = t(a[t(1)])", "a[t(7)] = t(5)", "a[t(0)], a[t(7)] = t(5), t(6)",
               "x, a[t(0)] = t(5), t(6)", "a[t(0)], x = t((5, 6))"]:
        yield "F12.assign", pre + f"a = [1, 2]\n{st}\nemit(a)\n", None

