"""CPython oracle for C08: reads JSONL {"defs": src, "calls": [expr,...]}; for each call returns the
canonical encoding of the result, or null if the call is ill-formed (TypeError/SyntaxError...)."""
import json
import sys

from oracle_cpython import enc


def encode(v):
    o = []
    enc(v, o, {})
    return "".join(o)


def main():
    for line in sys.stdin:
        line = line.strip()
        if not line:
            continue
        spec = json.loads(line)
        ns = {}
        try:
            exec(compile(spec["defs"], "sig", "exec"), ns)
        except SyntaxError:
            print(json.dumps({"def_error": True}))
            continue
        res = []
        for c in spec["calls"]:
            try:
                code = compile(c, "call", "eval")
            except SyntaxError:
                res.append(None)
                continue
            try:
                res.append(encode(eval(code, ns)))
            except TypeError:
                res.append(None)
        print(json.dumps({"res": res}))


if __name__ == "__main__":
    main()
