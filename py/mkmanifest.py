#!/usr/bin/env python3
"""Regenerate MANIFEST.json from the table below (single source of truth)."""
import json
import os
import subprocess

ROOT = os.path.dirname(os.path.dirname(os.path.abspath(__file__)))

# id -> (category, technique, level text, level note, design ref)
CHECKS = {
    "C01": ("exploration",
            "bounded-exhaustive enumeration of program families, differential against CPython (reference interpreter)",
            "Every program of 12 bounded families over the Python-shared core (operator expressions to depth 2, every "
            "(start,stop,step) slice, every method/builtin x argument catalogue, all list/dict method histories to depth "
            "2-3, all control-flow trees of <=4-5 statements, scoping and comprehension skeletons, traced comprehension clauses, size "
            "thresholds, possibly-unassigned locals in conditionally evaluated positions), each as literal and "
            "opaque-variable form, at module level and inside a def, is run on the real evaluator and under CPython 3.11; "
            "transcripts and outcome must agree. Exhaustive within the stated bounds; nothing is sampled.",
            "CPython 3.11 is the reference; the whitelist of shared constructs (DESIGN.md C01 + Corrections) is trusted "
            "to contain only constructs on which the Starlark spec and Python agree.",
            "DESIGN.md#c01"),
    "C02": ("exploration",
            "bounded-exhaustive program families x all opacifying rewrites x {same module, frozen+loaded}; self-differential (all observations of one program must be identical)",
            "Every program of the optimiser-directed families (inlining: 31 callee bodies x 11 argument shapes x possibly-"
            "unassigned locals at every slot; 22 constant conditions x 16 side-effect forms; 39 raising pure builtins x 20 "
            "live/dead positions; 85 specialisable expressions x 22 values as parameter/constant/global; slices of constant "
            "receivers with constant/computed/absent components; once/twice-assigned globals; records/enums/annotations/"
            "f-strings) plus the shared-core families is run as written and under 7 semantics-preserving rewrites, in the "
            "defining module and after freeze+load: transcripts, side-effect order, failure and error message must coincide.",
            "The rewrites (opaque() around literals/callees/receivers/conditions, dead second assignment) are assumed "
            "semantics-preserving; file names inside qualified function names are normalised.",
            "DESIGN.md#c02"),
    "C03": ("model_checking",
            "exhaustive enumeration of GC schedules (every subset of the safepoints) over bounded-exhaustive heap-shaping programs, on the real evaluator with a controlled collector",
            "For every program of the heap-shaping families (all statement sequences of length <=3 over a 50-statement "
            "alphabet with cycles, aliasing, closures, partial, records, enums, embedder-set variables, extra_value, "
            "second evaluation on the same module, plus multi-step scenarios), the hook decides collect/not at every "
            "safepoint the evaluator offers and ALL 2^n placements are executed (n<=8..16; beyond: all placements with "
            "<=2 collections, every k-th, always). Dropped arenas are poisoned so a lost root is a crash or wrong read. "
            "Transcript, result, error text and frozen exports must equal the no-collection run.",
            "Schedule space is what the evaluator offers (top-level statement safepoints). Poisoning turns dangling "
            "reads into faults deterministically but a dangling pointer never dereferenced is not observed.",
            "DESIGN.md#c03"),
    "C04": ("exploration",
            "bounded-exhaustive cross product export x access path x discovered mutator / reader, frozen-vs-unfrozen differential on the real evaluator",
            "19 exported value graphs (nested, aliased and cyclic containers, struct, record, enum, range, scalars, closures, "
            "partial) plus pairs of strings whose 32-bit hashes collide (found by exhaustive search; one a literal, one built at run time): "
            "encodings, str/repr, == matrix and hashes observed inside the module before freezing must equal what "
            "FrozenModule::get_owned, a load()ing module and a re-exporting module observe; every mutator discovered from "
            "dir(value) x argument catalogue + statement forms is attempted on each of 44 access paths to reachable containers "
            "and must fail leaving the value unchanged; ~50 read operations and all discovered non-mutating methods must give "
            "the same result frozen and unfrozen; all ordered pairs of mutators from two importing modules, both load orders.",
            "A mutator is an operation that changes the canonical encoding of an unfrozen value; qualified function names "
            "are normalised for the module file name.",
            "DESIGN.md#c04"),
    "C05": ("exploration",
            "exhaustive enumeration of all short texts / token sequences and of the edit neighbourhood of a corpus, x dialect lattice; invariants checked on every parse",
            "Every string of length <=5/6 over a 17-symbol alphabet derived from the lexer's case analysis (quotes, backslash, "
            "CR/LF/tab, #, braces, f/r/b prefixes, a 2-byte char), every sequence of <=3/4 of 43 tokens, every 1-edit (2-edit "
            "in thorough) token- and character-level neighbour of a corpus (seeds + the repository's golden programs), nesting "
            "ladders to depth 200 and a line-ending matrix are parsed under dialect corners none<=std<=ext<=all; accepted "
            "token-level inputs under all 384 parser-relevant dialects with every monotonicity edge. Each parse: no panic, "
            "located error on char boundaries, node spans nested in parents, identifier/literal spans re-lex to themselves.",
            "Texts longer than the bounds are covered only through the edit neighbourhoods; 8 MiB stack as in the test suite.",
            "DESIGN.md#c05"),
    "C06": ("exploration",
            "bounded-exhaustive enumeration of token sequences and grammar families, differential against CPython's ast (reference grammar) with the specified deviations as rejection rules; print/parse round trip on every accepted input",
            "ALL bracket-balanced sequences of <=4 (quick) / 6 (thorough) tokens over a 20-token shared alphabet; every ordered pair "
            "of the 21 binary operators (triples of 13), unary x binary, ternary, lambda, comprehension, subscript/slice and call "
            "shapes in each of 25 syntactic contexts; ALL parameter lists and argument lists of length <=4 over every kind in "
            "every order (legal and illegal); ALL statement-line sequences of length <=3/4 over 20 line forms x indentation "
            "levels: starlark-rust and CPython must agree on accept/reject and on the tree (canonical S-expression). For every "
            "accepted input and a full-dialect corpus (f-strings, types, load; repository test programs and their 1-token "
            "edits) the printed module parses to the same tree and is a fixed point of parse-then-print.",
            "CPython 3.11's grammar is the reference; the deviation rules in py/pysexpr.py (chained comparison/assignment, "
            "set and generator displays, **, for-else, argument order, bare tuple statements / trailing commas / bare tuple as "
            "for-iterable - the last three are deliberate in this implementation's grammar) are trusted.",
            "DESIGN.md#c06"),
    "C07": ("exploration",
            "bounded-exhaustive: every discovered builtin/method x all argument tuples of arity <=2 (3) from a hostile catalogue; all evaluation histories up to length 2/3 over a failure-mode alphabet on one evaluator",
            "Part 1: every global of the extended environment and every attribute of 26 witness values (162 callables, "
            "discovered via Globals::names and dir) is called with ALL tuples of arity 0, 1, 2 over a 40-value catalogue (the i32/i64 "
            "boundaries and their neighbours, "
            "nan/inf, None, astral string, self-containing list, lambdas, ...) plus keyword / *args / **kwargs shapes and the receiver "
            "itself (bare or inside a container) passed to its own method, and "
            "every operator, index, slice, attribute, comprehension and format form on catalogue pairs: a value or an error "
            "with an in-file span and resolvable call stack, never a panic or abort (child processes). Part 2: all sequences "
            "of length <=2 (quick) / 3 over 17 snippets covering each way an evaluation can fail, on ONE evaluator and module: "
            "outcome equals the snippet run alone, call stack empty, probe program equals a fresh evaluator, variables of earlier "
            "successes intact.",
            "Results larger than memory are out of scope (no `*`/`<<` with huge operands). Known finding: debug() on a cyclic value.",
            "DESIGN.md#c07"),
    "C08": ("exploration",
            "complete enumeration of the finite signature x call-shape space on every call path, differential against CPython performing the same call",
            "All parameter lists up to the tier bound over the six parameter kinds (plus 15 illegal orders) x all call shapes "
            "(0..4 positional, named subsets, *seq of length 0..2, **map with overlapping/unknown/non-string keys): the tuple "
            "of bound parameter values, or rejection, must equal CPython's on the direct, via-variable, struct-field, "
            "inside-def (inlinable), callee-as-parameter, frozen+loaded, lambda and host eval_function paths.",
            "CPython's binding rules are the reference; calls are written in the argument order Starlark's grammar accepts.",
            "DESIGN.md#c08"),
    "C09": ("exploration",
            "all ordered pairs over a catalogue of constructions of the same abstract values (exhaustive), judged against an abstract equivalence / order",
            "160 constructions (thorough: 804, every scalar also wrapped in each container kind) (ints at +-2^31/2^53/2^63/2^64 via literal, arithmetic, int(), float; integral floats; nan, "
            "inf, -0.0; strings via literal/concat/slice/format/join/interning/host allocation; tuples, lists, dicts, sets, "
            "structs, ranges via several paths), ALL ordered pairs, in three modes (unfrozen x unfrozen, unfrozen x frozen+"
            "loaded, frozen x frozen; plus run-time operand from another heap against a constant operand): ==, !=, symmetry, the four order operators, dict lookup, set membership, `in`, and "
            "compile-time-folded == must agree with exact abstract equality/order; sorted/min/max are checked for order, "
            "reverse and stability. Agreement with an abstract equivalence on all pairs implies reflexivity, symmetry and "
            "transitivity on the catalogue.",
            "Abstract equality compares numbers by exact mathematical value (Starlark spec); NaN equals NaN and sorts last "
            "(spec). One known finding (int/float rounding) and one fixed defect are in known-findings.json.",
            "DESIGN.md#c09"),
    "C10": ("exploration",
            "exhaustive pairs over a boundary grid for every operator, folded-literal / runtime / Rust-API forms, differential against CPython big integers",
            "Grid {0} u {+-2^k, +-2^k+-1 : k in 0..70, 126..129, 254..257}; ALL ordered pairs x 14 binary operators and "
            "comparisons, all values x 77 shift counts, unary operators, string<->int in bases 2/8/10/16/36/0 with and "
            "without prefixes, source literals, int<->float, and host i32/i64/u32/u64/usize/isize/BigInt round trips through "
            "heap.alloc / UnpackValue; each as compile-time-folded literals and as runtime values; results compared with "
            "CPython's exact integers.",
            "CPython int is the oracle; shifts past 256 bits and floats past 2^1000 are not judged; mixed int/float "
            "comparison is judged by C09, not here.",
            "DESIGN.md#c10"),
    "C11": ("model_checking",
            "explicit-state BFS over the real containers (cloned per transition) in lock-step with a Vec-of-pairs reference model; invariant + all queries checked in every state",
            "Breadth-first search to a fixed point (or a stated depth) over SmallMap/SmallSet/Vec2/OrderedMap/OrderedSet/"
            "SortedMap/SortedSet/UnorderedMap/UnorderedSet: 4 active keys + up to 20 fillers under 6 hash patterns "
            "(natural = a well-spread 64-bit word per key, distinct, all-colliding, pairwise, equal-low-bits, equal-high-bits), 10 start states that "
            "straddle the 16-entry index threshold (filled, pre-reserved, grown-then-shrunk), ~70 operations. Every "
            "transition runs on the implementation; every state compares every lookup/iteration with the model and "
            "evaluates the private hash-index invariant through the hook.",
            "hashbrown is trusted. Canonical state = entries+stored hashes+capacity+index presence (index content is "
            "checked, not hashed, because the invariant pins it).",
            "DESIGN.md#c11"),
    "C12": ("exploration",
            "complete cross product container x iterating construct x discovered mutator x exit x level, on the real evaluator; fails()-probe oracle + effect-on-fresh-container differential",
            "Containers {list, dict, set} x every mutator DISCOVERED from dir(value) x argument catalogue + statement forms "
            "(57 mutators) x {for, nested for over the same value, for inside for, 12 expression constructs: comprehension "
            "clauses, dict comprehension, sorted/min/max key=, map, filter, any/all} x exits {exhaustion, break, continue, "
            "return, error, error three frames down, error in callback} x {in def, in a def with a return-type annotation, module level} + 23 release-only "
            "constructs: during iteration each mutation attempt must fail and leave the value intact; afterwards - in the "
            "same function, in the caller, and in a second eval_module after the host caught the error - it must succeed "
            "with the effect it has on a fresh container.",
            "One known finding (release after a propagating error) is listed in known-findings.json.",
            "DESIGN.md#c12"),
    "C13": ("model_checking",
            "exhaustive enumeration of build graphs x load patterns x handle sets x ALL drop permutations, executed on the real heap API with poisoned arenas; every surviving object re-observed after every drop",
            "All DAGs on 3 (quick) / 4 (thorough) modules x labellings of the edges with 7 load patterns (direct use, re-export, inside "
            "containers/struct, captured by a def, host import_public_symbols, OwnedFrozen::add_to_heap + Module::set, function only; "
            "<=2 distinct patterns) x handle variants (owned handle, mapped handles reaching into an EARLIER heap, clones, Globals built "
            "from a handle, FrozenModule::from_globals, a module evaluated against those globals, forwarding frozen heaps that only reference "
            "another heap) x EVERY permutation of dropping the "
            "objects, with allocation noise that recycles released chunks after each drop and (second variant) a collection at every "
            "safepoint of every module evaluation: after every drop each surviving module, "
            "handle and Globals is re-observed (all exports encoded, functions called) and must equal its observation at creation. "
            "Plus hold histories: a value obtained through load() kept as a plain Value while its importing module is dropped (unfrozen, "
            "or frozen and the frozen module dropped) and the exporters are dropped. "
            "Dropped arenas are overwritten (hook), so a missing heap reference is a crash or a wrong read.",
            "Histories with more than 5 droppable objects permute only the newest 5. Cross-thread drops are covered by C20, not here.",
            "DESIGN.md#c13"),
    "C14": ("exploration",
            "enumeration of a finite configuration set (hash seed x ASLR x allocation noise x thread x repetition) for every program; byte-identical-output differential; canaries prove the configurations differ",
            "Programs printing order- and identity-bearing observations (dict/set/struct/dir() iteration after inserts and removals across "
            "the 16-entry threshold, hash(), json, str/repr of functions/natives/types/records/enums/partial/bound methods, full error "
            "texts with did-you-mean suggestions (incl. misspellings with 2/3/8 equally distant candidates for every kind of lookup) and "
            "call stacks, generated families) and modules with several static diagnostics (k = 2/3/8 of each kind in one def, every ordered pair of kinds) "
            "(typechecker errors, type map, lints) are run in one process per configuration and twice within it; configurations = 6 std "
            "hash seeds (LD_PRELOAD getrandom shim) x ASLR on/off x 3 pre-allocation levels x {main, spawned, spawned-after-another-"
            "evaluation} thread. All outputs must be byte-identical; canaries assert that HashMap order, addresses and threads differ.",
            "The hash-seed space is not exhausted: the claim is 'all programs x these 48/108 configurations', a finite stand-in for "
            "'any process'.",
            "DESIGN.md#c14"),
    "C15": ("fault_enumeration",
            "exhaustive enumeration of every depth / tick count / cancellation position around every configured limit, judged against reference counts measured on unlimited runs",
            "Depth: 12 recursion shapes (direct, mutual, lambda, comprehension, sorted key=, map, filter, partial, struct field, "
            "loaded frozen function, native re-entry) x limits {1..8, 50 default, 51} x EVERY depth near the limit: the run "
            "succeeds with the same transcript iff the depth read by a native probe at the leaf (unlimited run) is within the "
            "limit, else ErrorKind::StackOverflow; stack empty and evaluator reusable afterwards. Ticks: 10 loop/call structures x "
            "every parameter (tick count measured and re-measured) x budgets x EVERY tick count in a +-1100 band (thorough) around "
            "each budget: T <= B succeeds identically, T > B fails with the tick error, transcript a prefix, overrun <= 1000. "
            "Cancellation raised at EVERY iteration index of a 2500-iteration loop: always ends Cancelled within 1000 iterations.",
            "Check interval 1000 (INFREQUENT_INSTRUCTION_CHECK_PERIOD); the leaf is the deepest point of each shape.",
            "DESIGN.md#c15"),
    "C16": ("exploration",
            "exhaustive type-term x value-catalogue matrix on six check paths, frozen and unfrozen, against a denotes(T, v) reference model",
            "All type terms to depth 1 (quick) / 2 (thorough, inner positions from 8 representatives) over Any, Never, None, "
            "bool, int, float, str, list, dict, set, tuple, Callable, Iterable, range, struct, two records and two enums of "
            "equal shape, list[T], set[T], tuple[T, ...], (A,), (A, B), (A, B, C), dict[K, V], A | B, A | B | C - x 76 values "
            "x {isinstance by name, isinstance by expression, parameter annotation, return annotation, annotated assignment, "
            "host TypeCompiled::matches} x {unfrozen, frozen + loaded}: each answer must equal denotes(T, v).",
            "denotes() is transcribed from docs/types.md. tuple[A, B] / tuple[A] spellings are not accepted by this "
            "implementation (fixed arity is written as a tuple of types), so they are not in the alphabet.",
            "DESIGN.md#c16"),
    "C17": ("exploration",
            "bounded-exhaustive module families: (A) binding forms x right-hand sides judged by a rendered-type membership oracle after evaluation, (B) well-typed-by-construction modules, (C) determinism differential on a generated corpus",
            "A: every module of <=2 statements over 17 binding forms x 32 right-hand sides: each exported binding to which the checker "
            "assigns a type other than Any, with no approximation flagged, must hold a value of that type after evaluation (19k judged "
            "bindings in quick; incl. rebinding nested two levels deep in every subset of the branches of an if/elif/else chain). "
            "B: modules well typed by construction over int/str/bool/list[int]/dict[str,int] and heterogeneous 3-4 element literals in every "
            "arrangement of element types (as globals and held in locals) with annotated defs, "
            "returns, assignments and calls: zero diagnostics. C: a totality family (every module of <=2 statements over 27 statement "
            "templates with identifier holes x {defined, defined later, undefined, builtin, type} names, at module level and in a def) "
            "plus several thousand generated (mostly ill-typed) modules: no crash, "
            "identical diagnostics twice in-process and under a different std hash seed.",
            "Rendered types are mapped to value classes by denotes() in py/checks/c17.py; renderings it does not know are counted, not judged.",
            "DESIGN.md#c17"),
    "C18": ("exploration",
            "bounded-exhaustive programs x enumerated instrumentation configurations (every ProfileMode, hooks, EVERY subset of marker lines as breakpoints, all stepping modes); self-differential against the plain run + hit counts derived from the plain transcript",
            "Every control-flow skeleton of <=3 (quick: every second) / 4 statements at module level and in a def, plus call/"
            "recursion/closure/failure programs, one statement per line with markers that print [line, value], is run plain, "
            "with GC at every safepoint, under each of the 13 ProfileModes, with no-op and recording statement hooks, and under "
            "the debug adapter with EVERY subset of the marker lines as breakpoints (continuing at each stop), stepping "
            "into/over/out, and conditional breakpoints. Transcript, result and error must equal the plain run; stops per line == "
            "executions of that line; locals and evaluate() at a stop == the value the marker prints; no stop without a "
            "breakpoint; no hang (10 s watchdog). Two-file sessions (a program calling into a loaded library): every sequence of <=3 "
            "setBreakpoints requests over {file} x {none, one line, all lines}; stops per (file, line) must equal the executions of "
            "that line under the breakpoint set that results when each request replaces only its own file's breakpoints.",
            "Known finding: module-level statements stop twice (the repository's own tests encode it).",
            "DESIGN.md#c18"),
    "C19": ("exploration",
            "bounded-exhaustive documents x positions x notification histories driven through the real server over an in-memory connection; scope oracle = executing the same document",
            "528 (quick) / 660 documents enumerating every combination of bindings of one name across 5 nested scopes (module, def "
            "parameter/local before/after use, nested def, comprehension incl. the iterables of its first and later clauses, lambda incl. "
            "a parameter default) x text variants with BMP / astral characters and "
            "CRLF placed before identifiers: go-to-definition at both ends of every use must land on an identifier of that name "
            "(sliced by UTF-16) bound in the scope the executed program actually read (each binding carries its scope tag, each "
            "use emits what it reads). Every (line, character) incl. past line ends and past the last line x {definition, hover, "
            "completion}; all sequences of <=3 notifications from {open valid/invalid, change valid/invalid/empty, close} with the "
            "three requests after each; a two-document load case; diagnostics ranges must slice to the name they mention. One "
            "response per request within 10 s, no server panic, all ranges inside the current document under UTF-16; error positions "
            "of the evaluated documents equal an independent line/character computation.",
            "Known finding: the server's position encoding is bytes in / code points out rather than UTF-16; a violation is filed under it only "
            "when the response is exactly what an explicit model of that defect predicts.",
            "DESIGN.md#c19"),
    "C20": ("model_checking",
            "stateless model checking of the real code: preemption-bounded exhaustive DFS over thread schedules under a controlled "
            "scheduler (CHESS-style iterative context bounding, with and without partial-order reduction) + exhaustive operation "
            "interleavings in fresh processes",
            "cfg(starlark_verif) turns every operation on the shared mutable words of frozen heaps (chunk reference counts, lazily "
            "cached string hashes incl. the process-wide static one-byte strings, per-thread chunk-cache hand-over) into a "
            "scheduling point; 10 harness bodies of 2-3 real threads (heaps sharing a chunk read/dropped on different threads, a heap "
            "handed over through a blocking wait while its builder - and in one body also the receiver - keeps carving the same chunk, "
            "load+call+freeze+drop against concurrent callers, first-use hashing of shared and of process-wide static strings) are run "
            "under EVERY schedule with <=2 preemptions at any point (quick; <=3 thorough) and with <=3-6 preemptions at conflicting "
            "operations (partial-order reduction; <=3-10 thorough, each part capped at 150 000 schedules - a cap that is hit is reported and clears `exhaustive`). Every "
            "execution: per-thread observations == serial reference, no panic, no double free, no ref-count operation on a freed "
            "chunk (freed chunks are poisoned). Plus all interleavings of whole operations (load+call, hash, build/freeze/drop, "
            "publish/take/drop, record/enum, type matching, first use of Globals) on 2-3 threads, one fresh process each, compared "
            "with solo runs. A supplementary free-running pass (sampled, reported separately, never deciding) runs the operation alphabet "
            "on 2-16 OS threads.",
            "Interleavings only under sequential consistency at the intercepted points: weak-memory effects, plain-memory data races "
            "between points, once_cell/AtomicFrozenAnyValueOption internals are not decided (DESIGN.md#c20).",
            "DESIGN.md#c20"),
}

NOT_YET = {
}


def main():
    hooks_commits = subprocess.run(
        ["git", "-C", "/repo", "log", "--format=%H %s", "--grep=^verif hook"], stdout=subprocess.PIPE, text=True
    ).stdout.strip().split("\n")
    props = [json.loads(l)["id"] for l in open(os.path.join(ROOT, "properties.jsonl"))]
    checks = []
    for pid in props:
        if pid not in CHECKS:
            continue
        cat, tech, text, note, ref = CHECKS[pid]
        checks.append({
            "property_id": pid,
            "quick_cmd": f"./check {pid} --tier quick",
            "thorough_cmd": f"./check {pid} --tier thorough",
            "evidence_file": f"/verif/evidence/{pid}.json",
            "replay_cmd_template": f"./check {pid} --replay {{path}}",
            "engine": "sut",
            "level_claimed": {"category": cat, "text": text, "design_ref": ref},
            "level_note": note,
            "technique": tech,
        })
    na = [{"property_id": p, "reason": NOT_YET.get(p, "check not built yet in this session (planned: see DESIGN.md section 4)")}
          for p in props if p not in CHECKS]
    m = {
        "version": 1,
        "setup_cmd": "cd /verif/harness && CARGO_NET_OFFLINE=true cargo build --profile checked --offline",
        "hooks": {
            "guard": "--cfg starlark_verif",
            "enable": "RUSTFLAGS=--cfg starlark_verif via /verif/harness/.cargo/config.toml; the harness links /repo's crates by path",
            "baseline_off_cmd": "cd /repo && cargo nextest run --workspace --no-fail-fast --tool-config-file pb:/w/lib/nextest.toml --profile pb --test-threads 8 --offline",
            "source_commits": [c.split()[0] for c in hooks_commits if c],
            "add_only": False,
        },
        "engines": [
            {"name": "sut", "path": "/verif/harness/sut", "serves_properties": sorted(CHECKS),
             "kind_free_text": "Rust driver linking the real starlark crates (hooks on); JSONL runners and API-level exhaustive explorers"},
            {"name": "py", "path": "/verif/py", "serves_properties": sorted(CHECKS),
             "kind_free_text": "bounded-exhaustive generators, CPython oracle, orchestration, evidence writer"},
        ],
        "checks": checks,
        "not_applicable": na,
        "notes": "All checks share ./check <ID> --tier quick|thorough; exit 0 held / 1 VIOLATION / 2 machinery failure. "
                 "hooks.add_only is false only because one existing line of starlark/Cargo.toml (check-cfg list) was extended; "
                 "all source changes are pure additions under #[cfg(starlark_verif)].",
    }
    with open(os.path.join(ROOT, "MANIFEST.json"), "w") as f:
        json.dump(m, f, indent=1)
    print("wrote MANIFEST.json with", len(checks), "checks,", len(na), "not_applicable")


if __name__ == "__main__":
    main()
