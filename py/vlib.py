"""Shared orchestration for the /verif checks.

Exit codes: 0 held (maybe KNOWN-FINDING lines), 1 violation(s), 2 machinery failure.
"""
import hashlib
import json
import os
import subprocess
import sys
import time
from concurrent.futures import ThreadPoolExecutor

ROOT = os.path.dirname(os.path.dirname(os.path.abspath(__file__)))
HARNESS = os.path.join(ROOT, "harness")
SUT = os.path.join(HARNESS, "target", "checked", "sut")
NPROC = int(os.environ.get("VERIF_NPROC", "16"))
SEED = int(os.environ.get("VERIF_SEED", "0") or 0)


class Machinery(Exception):
    pass


def log(*a):
    print(*a, file=sys.stderr, flush=True)


def build():
    """Rebuild the harness against /repo's current working tree (hooks on)."""
    t = time.time()
    env = dict(os.environ, CARGO_NET_OFFLINE="true")
    p = subprocess.run(
        ["cargo", "build", "--profile", "checked", "--offline"],
        cwd=HARNESS, env=env, stdout=subprocess.PIPE, stderr=subprocess.STDOUT, text=True)
    if p.returncode != 0:
        log(p.stdout[-6000:])
        raise Machinery("harness build failed (the tree under /repo does not compile with hooks on)")
    log(f"[build] ok in {time.time()-t:.1f}s")


def _run_shard(cmd, specs, timeout, env=None):
    """Run one shard of specs through a `sut` JSONL subcommand, surviving crashes.

    Returns list of outcomes aligned with specs. A spec that kills the process gets
    {"id":..., "crash": <returncode>, "stderr": tail}.
    """
    out = [None] * len(specs)
    start = 0
    while start < len(specs):
        data = "".join(json.dumps(s, separators=(",", ":")) + "\n" for s in specs[start:])
        try:
            p = subprocess.run(cmd, input=data, stdout=subprocess.PIPE, stderr=subprocess.PIPE,
                               text=True, timeout=timeout, env=env)
            rc, so, se = p.returncode, p.stdout, p.stderr
        except subprocess.TimeoutExpired as e:
            rc = "timeout"
            so = e.stdout.decode() if isinstance(e.stdout, bytes) else (e.stdout or "")
            se = e.stderr.decode() if isinstance(e.stderr, bytes) else (e.stderr or "")
        lines = [l for l in so.split("\n") if l.strip()]
        n_ok = 0
        for l in lines:
            try:
                o = json.loads(l)
            except Exception:
                break
            out[start + n_ok] = o
            n_ok += 1
        if rc == 0 and n_ok == len(specs) - start:
            break
        # the spec at index start+n_ok crashed / hung / output was cut
        idx = start + n_ok
        if idx >= len(specs):
            if rc != 0:
                raise Machinery(f"sut exited {rc} after finishing all specs: {se[-500:]}")
            break
        out[idx] = {"id": specs[idx].get("id"), "crash": rc, "stderr": se[-800:]}
        start = idx + 1
    return out


def run_sut(subcmd, specs, nproc=None, timeout=600, shard=None, env=None, extra_args=()):
    """Run specs through `sut <subcmd>` in parallel shards; returns outcomes in order."""
    if not specs:
        return []
    nproc = nproc or NPROC
    if shard is None:
        shard = max(1, min(2000, (len(specs) + nproc * 4 - 1) // (nproc * 4)))
    chunks = [specs[i:i + shard] for i in range(0, len(specs), shard)]
    cmd = [SUT, subcmd, *extra_args]
    with ThreadPoolExecutor(max_workers=nproc) as ex:
        res = list(ex.map(lambda c: _run_shard(cmd, c, timeout, env), chunks))
    return [o for r in res for o in r]


def run_sut_once(args, input_text=None, timeout=3600, env=None):
    """Run an engine subcommand once; returns (rc, stdout, stderr)."""
    try:
        p = subprocess.run([SUT, *args], input=input_text, stdout=subprocess.PIPE,
                           stderr=subprocess.PIPE, text=True, timeout=timeout, env=env)
        return p.returncode, p.stdout, p.stderr
    except subprocess.TimeoutExpired as e:
        so = e.stdout.decode() if isinstance(e.stdout, bytes) else (e.stdout or "")
        se = e.stderr.decode() if isinstance(e.stderr, bytes) else (e.stderr or "")
        return "timeout", so, se


# ---------------------------------------------------------------------------
# CPython oracle

def _run_py_shard(progs, timeout):
    cmd = [sys.executable, os.path.join(ROOT, "py", "oracle_cpython.py")]
    out = [None] * len(progs)
    start = 0
    while start < len(progs):
        data = "".join(json.dumps(s) + "\n" for s in progs[start:])
        try:
            p = subprocess.run(cmd, input=data, stdout=subprocess.PIPE, stderr=subprocess.PIPE,
                               text=True, timeout=timeout)
            rc, so, se = p.returncode, p.stdout, p.stderr
        except subprocess.TimeoutExpired as e:
            rc = "timeout"
            so = e.stdout.decode() if isinstance(e.stdout, bytes) else (e.stdout or "")
            se = ""
        lines = [l for l in so.split("\n") if l.strip()]
        n_ok = 0
        for l in lines:
            try:
                out[start + n_ok] = json.loads(l)
            except Exception:
                break
            n_ok += 1
        if rc == 0 and n_ok == len(progs) - start:
            break
        idx = start + n_ok
        if idx >= len(progs):
            break
        out[idx] = {"oracle_crash": rc, "stderr": se[-500:]}
        start = idx + 1
    return out


def run_cpython(progs, nproc=None, timeout=600, shard=None):
    """progs: list of {"src": str, ...}. Returns [{"out": [...], "failed": bool, "exc": str}]"""
    if not progs:
        return []
    nproc = nproc or NPROC
    if shard is None:
        shard = max(1, min(5000, (len(progs) + nproc * 4 - 1) // (nproc * 4)))
    chunks = [progs[i:i + shard] for i in range(0, len(progs), shard)]
    with ThreadPoolExecutor(max_workers=nproc) as ex:
        res = list(ex.map(lambda c: _run_py_shard(c, timeout), chunks))
    return [o for r in res for o in r]


# ---------------------------------------------------------------------------
# Results, evidence, findings

class Result:
    def __init__(self, pid, tier, level):
        self.pid = pid
        self.tier = tier
        self.level = level
        self.t0 = time.time()
        self.violations = []      # (key, replay-dict)
        self.coverage = {}
        self.assumptions = []
        self.exhaustive = True
        self.notes = []

    def violation(self, key, replay):
        """key: stable classification string; replay: JSON-able minimal reproduction."""
        self.violations.append((key, replay))

    def cap_hit(self, what):
        self.exhaustive = False
        self.notes.append("cap: " + what)


def load_known():
    p = os.path.join(ROOT, "known-findings.json")
    if not os.path.exists(p):
        return []
    return json.load(open(p))


def finish(res: Result):
    """Write replays + evidence, print verdict lines, return exit code."""
    known = [k for k in load_known() if k.get("property") == res.pid and k.get("status") == "known"]
    rdir = os.path.join(ROOT, "replays", res.pid)
    new, kn = [], {}
    for key, rep in res.violations:
        hit = None
        for k in known:
            if key == k["key"] or (k.get("key_prefix") and key.startswith(k["key_prefix"])):
                hit = k
                break
        if hit:
            kn.setdefault(hit["key"], [hit, 0])[1] += 1
        else:
            new.append((key, rep))
    for key, (k, n) in kn.items():
        print(f"KNOWN-FINDING: property={res.pid} {k['summary']} [{key}; {n} instance(s) this run]")
    # print at most 20 distinct keys
    seen_keys = {}
    for key, rep in new:
        seen_keys.setdefault(key, []).append(rep)
    if new:
        os.makedirs(rdir, exist_ok=True)
    for key, reps in list(seen_keys.items())[:20]:
        rep = min(reps, key=lambda r: len(json.dumps(r)))
        h = hashlib.sha1((key + json.dumps(rep, sort_keys=True)).encode()).hexdigest()[:12]
        path = os.path.join(rdir, f"{h}.json")
        with open(path, "w") as f:
            json.dump({"property": res.pid, "key": key, "instances": len(reps), "replay": rep}, f, indent=1)
        print(f"VIOLATION property={res.pid} replay={path}")
        log(f"  key={key}")
    cov = dict(res.coverage)
    cov["exhaustive"] = bool(res.exhaustive and cov.get("exhaustive", True))
    if res.notes:
        cov["notes"] = res.notes
    ev = {
        "property_id": res.pid,
        "tier": res.tier,
        "seed": SEED,
        "level": res.level,
        "coverage": cov,
        "assumptions": res.assumptions,
        "wall_s": round(time.time() - res.t0, 2),
        "violations": len(new),
        "known_findings_matched": sum(n for _, n in kn.values()),
    }
    os.makedirs(os.path.join(ROOT, "evidence"), exist_ok=True)
    with open(os.path.join(ROOT, "evidence", f"{res.pid}.json"), "w") as f:
        json.dump(ev, f, indent=1)
    log(f"[{res.pid}] tier={res.tier} wall={ev['wall_s']}s violations={len(new)} known={ev['known_findings_matched']} "
        f"coverage={ {k: v for k, v in cov.items() if k not in ('samples', 'rule', 'per_job', 'explanation', 'families')} }")
    return 1 if new else 0
