"""Canonical S-expression of a CPython ast, in the exact format of harness/sut/src/astwalk.rs,
with the *specified* Starlark deviations applied as rejections (class Reject)."""
import ast
import json
import warnings

warnings.filterwarnings("ignore")


class Reject(Exception):
    """The text is valid Python but outside the grammar Starlark specifies."""


BINOP = {ast.Add: "+", ast.Sub: "-", ast.Mult: "*", ast.Div: "/", ast.FloorDiv: "//", ast.Mod: "%", ast.BitAnd: "&",
         ast.BitOr: "|", ast.BitXor: "^", ast.LShift: "<<", ast.RShift: ">>"}
CMPOP = {ast.Eq: "==", ast.NotEq: "!=", ast.Lt: "<", ast.LtE: "<=", ast.Gt: ">", ast.GtE: ">=", ast.In: "in", ast.NotIn: "notin"}


def rstr(s):
    """Rust `{:?}` of a str, for the ASCII strings of the alphabet."""
    return json.dumps(s)


class Conv:
    def __init__(self, src):
        self.src = src
        self.lines = src.split("\n")

    def char_at(self, node):
        try:
            return self.lines[node.lineno - 1].encode()[node.col_offset:node.col_offset + 1].decode()
        except Exception:
            return ""

    def paren(self, t):
        """Is this node written with its own enclosing parentheses? (the ast does not keep them)"""
        seg = ast.get_source_segment(self.src, t)
        if not seg or seg[0] != "(":
            return False
        depth = 0
        for i, ch in enumerate(seg):
            if ch in "([{":
                depth += 1
            elif ch in ")]}":
                depth -= 1
                if depth == 0:
                    return i == len(seg) - 1
        return False

    def module(self, m):
        return "(module" + "".join(self.stmt(s) for s in m.body) + ")"

    def block(self, body):
        return "(block" + "".join(self.stmt(s) for s in body) + ")"

    def stmt(self, s):
        t = type(s)
        if t is ast.Expr:
            if isinstance(s.value, ast.Tuple) and not self.paren(s.value):
                raise Reject("unparenthesized tuple as an expression statement")
            return " (expr" + self.expr(s.value) + ")"
        if t is ast.Assign:
            if len(s.targets) != 1:
                raise Reject("chained assignment")
            return " (assign" + self.target(s.targets[0]) + self.expr(s.value) + ")"
        if t is ast.AnnAssign:
            if s.value is None:
                raise Reject("annotation without value")
            if isinstance(s.target, ast.Subscript):
                raise Reject("annotated subscript")
            return " (assign" + self.target(s.target) + self.expr(s.value) + " (type" + self.expr(s.annotation) + "))"
        if t is ast.AugAssign:
            if isinstance(s.target, (ast.Tuple, ast.List)):
                raise Reject("augmented tuple")
            if type(s.op) not in BINOP:
                raise Reject("augmented operator")
            return f" (augassign {BINOP[type(s.op)]}" + self.target(s.target) + self.expr(s.value) + ")"
        if t is ast.Return:
            return " (return" + (self.expr(s.value) if s.value is not None else "") + ")"
        if t is ast.Pass:
            return " (pass)"
        if t is ast.Break:
            return " (break)"
        if t is ast.Continue:
            return " (continue)"
        if t is ast.If:
            r = " (if" + self.expr(s.test) + " " + self.block(s.body)
            if s.orelse:
                r += " " + self.block(s.orelse)
            return r + ")"
        if t is ast.For:
            if s.orelse:
                raise Reject("for-else")
            if isinstance(s.iter, ast.Tuple) and not self.paren(s.iter):
                raise Reject("for iterable is a single test, not a bare tuple (implementation grammar)")
            return " (for" + self.target(s.target) + self.expr(s.iter) + " " + self.block(s.body) + ")"
        if t is ast.FunctionDef:
            if s.decorator_list:
                raise Reject("decorator")
            r = f" (def {s.name}" + self.params(s.args)
            if s.returns is not None:
                r += " (ret" + self.expr(s.returns) + ")"
            return r + " " + self.block(s.body) + ")"
        raise Reject("statement " + t.__name__)

    def params(self, a):
        out = []
        nd = len(a.defaults)
        pos = a.posonlyargs + a.args
        for i, p in enumerate(pos):
            d = a.defaults[i - (len(pos) - nd)] if i >= len(pos) - nd else None
            out.append(self.param("p", p, d))
            if a.posonlyargs and i == len(a.posonlyargs) - 1:
                out.append(" (slash)")
        if a.vararg:
            out.append(self.param("star", a.vararg, None))
        elif a.kwonlyargs:
            out.append(" (barestar)")
        for p, d in zip(a.kwonlyargs, a.kw_defaults):
            out.append(self.param("p", p, d))
        if a.kwarg:
            out.append(self.param("starstar", a.kwarg, None))
        return " (params" + "".join(out) + ")"

    def param(self, kind, p, d):
        r = f" ({kind} {p.arg}"
        if p.annotation is not None:
            r += " (type" + self.expr(p.annotation) + ")"
        if d is not None:
            r += " (default" + self.expr(d) + ")"
        return r + ")"

    def target(self, t):
        k = type(t)
        if k is ast.Name:
            return f" (id {t.id})"
        if k in (ast.Tuple, ast.List):
            if k is ast.Tuple:
                self.no_trailing_comma(t)
            return " (tuple" + "".join(self.target(x) for x in t.elts) + ")"
        if k is ast.Attribute:
            return " (dot" + self.expr(t.value) + f" {t.attr})"
        if k is ast.Subscript:
            if isinstance(t.slice, (ast.Slice, ast.Tuple)) and not (isinstance(t.slice, ast.Tuple) and self.paren(t.slice)):
                raise Reject("slice / multi-index assignment target")
            return " (index" + self.expr(t.value) + self.expr(t.slice) + ")"
        if k is ast.Starred:
            raise Reject("starred target")
        raise Reject("target " + k.__name__)

    def no_trailing_comma(self, t):
        """Deliberate deviation (grammar_util::reject_unparenthesized_tuple_trailing_comma)."""
        if not self.paren(t):
            seg = ast.get_source_segment(self.src, t)
            if seg is not None and seg.rstrip().endswith(","):
                raise Reject("unparenthesized tuple with trailing comma")

    def opt(self, e):
        return " _" if e is None else self.expr(e)

    def comp(self, gens):
        r = ""
        for g in gens:
            if g.is_async:
                raise Reject("async")
            r += " (for" + self.target(g.target) + self.expr(g.iter) + ")"
            for c in g.ifs:
                r += " (if" + self.expr(c) + ")"
        return r

    def expr(self, e):
        k = type(e)
        if k is ast.Name:
            return f" (id {e.id})"
        if k is ast.Constant:
            v = e.value
            if v is None or v is True or v is False:
                return f" (id {v})"
            if v is Ellipsis:
                return " (ellipsis)"
            if isinstance(v, int):
                return f" (int {v})"
            if isinstance(v, float):
                return " (float " + (repr(v) if "e" not in repr(v) and "inf" not in repr(v) else repr(v)) + ")"
            if isinstance(v, str):
                return " (str " + rstr(v) + ")"
            raise Reject("constant")
        if k is ast.Tuple:
            self.no_trailing_comma(e)
            return " (tuple" + "".join(self.expr(x) for x in e.elts) + ")"
        if k is ast.List:
            return " (list" + "".join(self.expr(x) for x in e.elts) + ")"
        if k is ast.Dict:
            if any(x is None for x in e.keys):
                raise Reject("dict unpacking")
            return " (dict" + "".join(" (kv" + self.expr(a) + self.expr(b) + ")" for a, b in zip(e.keys, e.values)) + ")"
        if k is ast.Attribute:
            return " (dot" + self.expr(e.value) + f" {e.attr})"
        if k is ast.Call:
            items = [(a.lineno, a.col_offset, "star" if isinstance(a, ast.Starred) else "pos", a) for a in e.args]
            for kw in e.keywords:
                items.append((kw.value.lineno if kw.arg is None else kw.lineno, kw.col_offset, "starstar" if kw.arg is None else "named", kw))
            items.sort(key=lambda x: (x[0], x[1]))
            order = {"pos": 0, "named": 1, "star": 2, "starstar": 3}
            last = -1
            for _, _, kind, _ in items:
                o = order[kind]
                if o < last or (o == last and kind in ("star", "starstar")):
                    raise Reject("argument order not allowed by the Starlark grammar")
                last = o
            r = " (call" + self.expr(e.func)
            for _, _, kind, a in items:
                if kind == "pos":
                    if isinstance(a, ast.GeneratorExp):
                        raise Reject("generator expression")
                    r += " (pos" + self.expr(a) + ")"
                elif kind == "star":
                    r += " (star" + self.expr(a.value) + ")"
                elif kind == "named":
                    r += f" (named {a.arg}" + self.expr(a.value) + ")"
                else:
                    r += " (starstar" + self.expr(a.value) + ")"
            return r + ")"
        if k is ast.Subscript:
            s = e.slice
            if isinstance(s, ast.Slice):
                return " (slice" + self.expr(e.value) + self.opt(s.lower) + self.opt(s.upper) + self.opt(s.step) + ")"
            if isinstance(s, ast.Tuple) and not self.paren(s):
                if len(s.elts) != 2 or any(isinstance(x, (ast.Slice, ast.Starred)) for x in s.elts):
                    raise Reject("subscript with tuple of arity != 2 or extended slice")
                return " (index2" + self.expr(e.value) + self.expr(s.elts[0]) + self.expr(s.elts[1]) + ")"
            if isinstance(s, ast.Starred):
                raise Reject("starred subscript")
            return " (index" + self.expr(e.value) + self.expr(s) + ")"
        if k is ast.Lambda:
            return " (lambda" + self.params(e.args) + self.expr(e.body) + ")"
        if k is ast.UnaryOp:
            n = {ast.Not: "not", ast.USub: "neg", ast.UAdd: "uplus", ast.Invert: "inv"}[type(e.op)]
            return f" ({n}" + self.expr(e.operand) + ")"
        if k is ast.BinOp:
            if type(e.op) not in BINOP:
                raise Reject("operator " + type(e.op).__name__)
            return f" (op {BINOP[type(e.op)]}" + self.expr(e.left) + self.expr(e.right) + ")"
        if k is ast.BoolOp:
            op = "and" if isinstance(e.op, ast.And) else "or"
            r = self.expr(e.values[0])
            for v in e.values[1:]:
                r = f" (op {op}" + r + self.expr(v) + ")"
            return r
        if k is ast.Compare:
            if len(e.ops) != 1:
                raise Reject("chained comparison")
            if type(e.ops[0]) not in CMPOP:
                raise Reject("is")
            return f" (op {CMPOP[type(e.ops[0])]}" + self.expr(e.left) + self.expr(e.comparators[0]) + ")"
        if k is ast.IfExp:
            return " (ifexp" + self.expr(e.test) + self.expr(e.body) + self.expr(e.orelse) + ")"
        if k is ast.ListComp:
            return " (listcomp" + self.expr(e.elt) + self.comp(e.generators) + ")"
        if k is ast.DictComp:
            return " (dictcomp" + self.expr(e.key) + self.expr(e.value) + self.comp(e.generators) + ")"
        raise Reject("expression " + k.__name__)


def py_parse(src):
    """-> ("ok", sexpr) | ("reject", why) | ("syntax", msg)"""
    try:
        tree = ast.parse(src)
        compile(tree, "x", "exec")
    except (SyntaxError, ValueError, RecursionError, MemoryError) as e:
        return "syntax", str(e)[:80]
    try:
        return "ok", Conv(src).module(tree)
    except Reject as r:
        return "reject", str(r)
