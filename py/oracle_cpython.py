"""CPython reference oracle: reads JSONL {"src":...} on stdin, writes JSONL outcomes.

The canonical encoder mirrors harness/sut/src/enc.rs exactly for the shared core
(None, bool, int, str, list, tuple, dict).
"""
import json
import signal
import sys

sys.setrecursionlimit(100000)
try:
    sys.set_int_max_str_digits(0)
except AttributeError:
    pass


def esc_str(s, out):
    out.append('"')
    for c in s:
        u = ord(c)
        if 0x20 <= u < 0x7f and c != '"' and c != '\\':
            out.append(c)
        else:
            out.append("\\u{%x}" % u)
    out.append('"')


class NotShared(Exception):
    """The program observed a value outside the shared core (generator bug)."""


def enc(v, out, ids):
    if v is None:
        out.append("N")
    elif v is True:
        out.append("T")
    elif v is False:
        out.append("F")
    elif type(v) is int:
        out.append("i%d" % v)
    elif type(v) is str:
        out.append("s")
        esc_str(v, out)
    elif type(v) is list:
        out.append("L")
        k = id(v)
        if k in ids:
            out.append("@%d" % ids[k])
            return
        ids[k] = len(ids)
        out.append("#%d" % ids[k])
        out.append("[")
        for i, x in enumerate(v):
            if i:
                out.append(",")
            enc(x, out, ids)
        out.append("]")
    elif type(v) is tuple:
        out.append("(")
        for i, x in enumerate(v):
            if i:
                out.append(",")
            enc(x, out, ids)
        out.append(")")
    elif type(v) is dict:
        out.append("D")
        k = id(v)
        if k in ids:
            out.append("@%d" % ids[k])
            return
        ids[k] = len(ids)
        out.append("#%d" % ids[k])
        out.append("{")
        for i, (kk, x) in enumerate(v.items()):
            if i:
                out.append(",")
            enc(kk, out, ids)
            out.append(":")
            enc(x, out, ids)
        out.append("}")
    else:
        raise NotShared(type(v).__name__)


class Timeout(BaseException):
    pass


def _alarm(signum, frame):
    raise Timeout()


SHARED_BUILTINS = {
    n: getattr(__builtins__, n) if not isinstance(__builtins__, dict) else __builtins__[n]
    for n in ["len", "range", "list", "tuple", "dict", "sorted", "reversed", "enumerate", "zip",
              "min", "max", "any", "all", "int", "str", "bool", "abs", "True", "False", "None",
              "repr", "hasattr", "getattr", "isinstance"]
}


def run_one(src):
    transcript = []

    def emit(x):
        o = []
        enc(x, o, {})
        transcript.append("".join(o))

    def opaque(x):
        return x

    ns = {"__builtins__": dict(SHARED_BUILTINS), "emit": emit, "opaque": opaque}
    try:
        code = compile(src, "prog.star", "exec")
    except SyntaxError as e:
        return {"syntax_error": str(e)}
    signal.alarm(10)
    try:
        exec(code, ns)
        return {"out": transcript, "failed": False, "exc": None}
    except NotShared as e:
        return {"out": transcript, "not_shared": str(e)}
    except Timeout:
        return {"out": transcript, "oracle_timeout": True}
    except MemoryError:
        return {"out": transcript, "oracle_memory": True}
    except RecursionError:
        return {"out": transcript, "failed": True, "exc": "RecursionError"}
    except Exception as e:
        return {"out": transcript, "failed": True, "exc": type(e).__name__ + ": " + str(e)[:100]}
    finally:
        signal.alarm(0)


def main():
    signal.signal(signal.SIGALRM, _alarm)
    w = sys.stdout
    for line in sys.stdin:
        line = line.strip()
        if not line:
            continue
        spec = json.loads(line)
        r = run_one(spec["src"])
        w.write(json.dumps(r) + "\n")
    w.flush()


if __name__ == "__main__":
    main()
