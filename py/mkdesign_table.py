#!/usr/bin/env python3
"""Regenerate the generated tables of DESIGN.md from evidence/*.json (+ evidence-thorough/*.json) and seeded/*/meta.json."""
import glob
import json
import os
import re

ROOT = os.path.dirname(os.path.dirname(os.path.abspath(__file__)))


def short(cov):
    keys = ["evaluations", "programs", "distinct_nontrivial", "states", "transitions", "traces_validated_against_impl",
            "histories", "L2_schedules", "L1_interleavings", "two_file_sessions", "documents", "calls"]
    out = []
    for k in keys:
        if k in cov and isinstance(cov[k], int):
            out.append(f"{k}={cov[k]:,}")
    return ", ".join(out)


def main():
    rows = ["| id | level | quick (last clean run) | wall | thorough (last clean run) | wall | exhaustive within bounds |", "|---|---|---|---|---|---|---|"]
    for i in range(1, 21):
        pid = f"C{i:02d}"
        q = t = None
        for path, slot in ((f"evidence-quick/{pid}.json", "q"), (f"evidence-thorough/{pid}.json", "t"), (f"evidence/{pid}.json", None)):
            p = os.path.join(ROOT, path)
            if os.path.exists(p):
                e = json.load(open(p))
                if (slot or e["tier"][0]) == "q" and q is None:
                    q = e
                if (slot or e["tier"][0]) == "t" and t is None:
                    t = e
        def cell(e):
            return (short(e["coverage"]), f"{e['wall_s']:.0f} s") if e else ("—", "—")
        qc, qw = cell(q)
        tc, tw = cell(t)
        ex = "/".join(str((e or {}).get("coverage", {}).get("exhaustive", "—")) for e in (q, t))
        lvl = (q or t or {}).get("level", "")
        rows.append(f"| {pid} | {lvl} | {qc} | {qw} | {tc} | {tw} | {ex} |")
    table = "\n".join(rows)
    srows = ["| seeded change | breaks | what it needs to manifest (short) | suite with the change | caught by |", "|---|---|---|---|---|"]
    for mp in sorted(glob.glob(os.path.join(ROOT, "seeded", "*", "meta.json"))):
        m = json.load(open(mp))
        needs = re.sub(r"\s+", " ", m.get("needs_short") or m.get("needs_to_manifest", ""))[:260].replace("|", "\\|")
        suite = (m.get("verified_by_me", {}).get("suite_with_change") or ["?"])[0]
        suite = re.sub(r"Summary \[\s*[\d.]+s\] ", "", suite)
        caught = ", ".join(m.get("caught_by", [])) or "**not caught**"
        if m.get("notes"):
            caught += f" ({m['notes']})"
        srows.append(f"| `{m['id']}` {m.get('title', '').split('—')[-1].strip()[:110]} | {m['breaks_property']} | {needs} | {suite[:70]} | {caught} |")
    metas = [json.load(open(mp)) for mp in sorted(glob.glob(os.path.join(ROOT, "seeded", "*", "meta.json")))]
    n = len(metas)
    missed_first = sum(1 for m in metas if m.get("notes", "").startswith("missed") or "would have been filed" in m.get("notes", "")
                       or "added because of this change" in m.get("notes", "") or "added for it" in m.get("notes", ""))
    pre = sum(1 for m in metas if "before the first run" in m.get("notes", ""))
    notc = [m["id"] for m in metas if not m.get("caught_by")]
    sampled = [m["id"] for m in metas if "only by the supplementary free-running" in m.get("notes", "")]
    summary = (f"{n} changes in all ({sum(1 for m in metas if '-r2' not in m['id'])} from the first round, "
               f"{sum(1 for m in metas if '-r2' in m['id'])} from a second round whose agents were told the first-round titles). "
               f"{n - missed_first - pre - len(notc)} were caught by the check as it stood; {pre} by a family I had added in anticipation "
               f"before the first run against them; {missed_first} were missed by the version they were first run against and are "
               f"caught since the check was strengthened (each strengthening is described in section 8 - always a wider family, never "
               f"a special case); not caught: {', '.join(notc) or 'none'}; caught only by the sampled pass L0: {', '.join(sampled) or 'none'}.\n\n")
    stable = summary + "\n".join(srows)
    p = os.path.join(ROOT, "DESIGN.md")
    s = open(p).read()
    s = re.sub(r"<!-- BEGIN GENERATED TABLE -->.*?<!-- END GENERATED TABLE -->",
               lambda _m: "<!-- BEGIN GENERATED TABLE -->\n" + table + "\n<!-- END GENERATED TABLE -->", s, flags=re.S)
    s = re.sub(r"<!-- BEGIN SEEDED TABLE -->.*?<!-- END SEEDED TABLE -->",
               lambda _m: "<!-- BEGIN SEEDED TABLE -->\n" + stable + "\n<!-- END SEEDED TABLE -->", s, flags=re.S)
    open(p, "w").write(s)
    print("tables regenerated:", len(rows) - 2, "checks,", len(srows) - 2, "seeded changes")


if __name__ == "__main__":
    main()
