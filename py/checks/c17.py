"""C17 — the static checker terminates without crashing, is deterministic, reports nothing on modules that are
well typed by construction, and every definite interface type it commits to contains the value the binding holds."""
import itertools
import json
import os
import subprocess

import gen_core
import gen_opt
import vlib

PID = "C17"
SHIM = os.path.join(vlib.HARNESS, "target", "getrandom_shim.so")

PRE = ('R = record(a = int)\nE = enum("p", "q")\ndef f(a: int) -> list[int]:\n    return [a]\n'
       'def g(x, y = "d", *z, **w):\n    return x\nx0 = "s"\nc = len(x0) > 3\n')
COMMIT = ['"a"', "None", "True", '("a", None)', "()", "f", "len", "int", "list[int]", "json", '"a".upper', "x0", "g", "typing.Callable", "struct"]
LOOSE = ["1", "[1]", "f(1)", '{"a": 1}', '"a".upper()', "1.5", "R(a = 1)", 'E("p")', "lambda: 1", '("a",)[0]', "not True", "-1", '"a" + "b"',
         "range(2)", "struct(a = 1)", "[x0]", "(1, [2])"]


def stmts(rhs):
    for r in rhs:
        yield f"v = {r}\n"
        yield f"v += {r}\n"
        yield f"v, w = {r}, {r}\n"
        yield f"[v, w] = [{r}, 1]\n"
        yield f"for v in [{r}]:\n    pass\n"
        yield f"for v, w in [({r}, 1)]:\n    pass\n"
        yield f"if c:\n    v = {r}\n"
        yield f"if c:\n    pass\nelse:\n    v = {r}\n"
        yield f"if not c:\n    v = {r}\nelse:\n    v = 1\n"
        yield f"for _i in [1, 2]:\n    v = {r}\n"
        yield f"for _i in []:\n    v = {r}\n"
        yield f"v = v or {r}\n"
        yield f"v = [{r}][0]\n"
        yield f"w = {r}\nv = w\n"
        yield f"v = {r} if c else None\n"
        yield f"def _h():\n    v = {r}\n    return v\n"
        yield f"_l = [v for v in [{r}]]\n"
    yield "def v(a: str, b: int = 1, *, k: bool = False) -> dict[str, int]:\n    return {a: b}\n"
    yield "def v():\n    pass\n"
    yield "v = lambda q: q\n"
    yield "load('lib.star', v = 'lx')\n"
    yield "load('lib.star', 'lx')\nv = lx\n"


def nested_forms():
    """Rebinding of a global nested two levels deep (inside a top-level if / for / else), in every subset of the branches
    of an if / elif / else chain, with conditions that make each branch the executed one."""
    outers = ["if True:\n", "for _i in [1]:\n", "if c:\n    pass\nelse:\n", "for _i in [1]:\n    if True:\n"]
    for outer in outers:
        ind = "    " * (2 if outer.count("\n") == 2 and "for" in outer else 1)
        for k1, k2 in itertools.product(("c", "not c"), repeat=2):
            for assign in itertools.product((False, True), repeat=3):
                if not any(assign):
                    continue
                for r in ("None", "1", '["a"]'):
                    body = [f"if {k1}:", f"    v = {r}" if assign[0] else "    pass", f"elif {k2}:", f"    v = {r}" if assign[1] else "    pass",
                            "else:", f"    v = {r}" if assign[2] else "    pass"]
                    yield outer + "".join(ind + l + "\n" for l in body)
                # two-branch chain
                if not assign[1]:
                    body = [f"if {k1}:", "    v = None" if assign[0] else "    pass", "else:", "    v = None" if assign[2] else "    pass"]
                    yield outer + "".join(ind + l + "\n" for l in body)


def modules(tier):
    q = tier == "quick"
    for f_ in nested_forms():
        yield PRE + "v = 'i'\nw = None\n" + f_
    first = list(stmts(COMMIT + LOOSE))
    second = list(stmts(COMMIT[:6] + LOOSE[:4])) if q else first
    for a in first:
        yield PRE + "v = None\nw = None\n" + a
        yield PRE + a if not a.startswith("v +=") and "v or" not in a else PRE + "v = 'i'\n" + a
    for a, b in itertools.product(first if not q else first[::3], second):
        if "load(" in b:
            continue
        yield PRE + "v = 'i'\nw = None\n" + a + b


# well-typed-by-construction modules (monomorphic core): must produce zero errors
def well_typed(tier):
    ints = ["1", "x + 1", "len(l)", "l[0]", "d['a']", "t[0]", "fi(2)", "max(l)", "int('3')", "x * 2 - 1", "sum_(l)", "(x if b else 2)"]
    strs = ['"s"', "s + 'x'", "s.upper()", "'%d' % x", "ts[1]", "fs('q')", "','.join(ls)", "str(x)", "s[0]", "s.strip().lower()", "('a' if b else s)"]
    bools = ["True", "x > 1", "s == 'a'", "not b", "x in l", "b and x > 0", "s.startswith('a')", "bool(l)"]
    lists = ["[1, 2]", "l + [x]", "[i + 1 for i in l]", "sorted(l)", "list(range(3))", "l[1:]", "[x]", "fl(3)", "[i for i in l if i > 1]"]
    dicts = ["{'a': 1}", "{k: 1 for k in ls}", "dict(d)", "{s: x}"]
    pre = ("x = 1\ns = 'a'\nb = True\nl = [1, 2, 3]\nls = ['p', 'q']\nd = {'a': 1}\nt = (1, 'z')\nts = (1, 'z')\n"
           "def fi(a: int) -> int:\n    return a + 1\ndef fs(a: str) -> str:\n    return a + 'x'\ndef fl(n: int) -> list[int]:\n    return [n, n]\n"
           "def sum_(xs: list[int]) -> int:\n    r = 0\n    for i in xs:\n        r += i\n    return r\n")
    # heterogeneous literals of 3-4 elements in every arrangement of repeated / distinct element types: each element is
    # passed to a function annotated with that element's own type (unions must keep every member, in any order)
    lit = {"int": ["1", "2", "3"], "str": ["'z'", "'y'", "'x'"], "bool": ["True", "False", "True"]}
    fun = {"int": "fi", "str": "fs", "bool": "fb"}
    pre_h = pre + "def fb(a: bool) -> bool:\n    return not a\n"
    for n in (3, 4):
        for shape in itertools.product(("int", "str", "bool"), repeat=n):
            if len(set(shape)) < 2 or (tier == "quick" and n == 4 and shape[0] != shape[1]):
                continue
            cnt = {"int": 0, "str": 0, "bool": 0}
            elems = []
            for ty in shape:
                elems.append(lit[ty][cnt[ty] % 3])
                cnt[ty] += 1
            tup = "(" + ", ".join(elems) + ")"
            src = pre_h + f"h = {tup}\n" + "".join(f"r{i} = {fun[ty]}(h[{i}])\n" for i, ty in enumerate(shape))
            src += f"def w() -> ({', '.join(shape)}):\n    return {tup}\nr = w()\n"
            union = " | ".join(dict.fromkeys(shape))
            src += f"def u(p: {union}) -> str:\n    return str(p)\nz = [u(e) for e in h]\nk = [u(e) for e in [{', '.join(elems)}]]\n"
            src += f"def pick(i: int) -> {union}:\n" + "".join(f"    if i == {i}:\n        return {e}\n" for i, e in enumerate(elems[:-1])) + f"    return {elems[-1]}\nq = u(pick(1))\n"
            yield src
            # the same with the literal held in a LOCAL variable (locals are typed precisely, globals are not)
            loc = pre_h + "def loc():\n" + f"    h = {tup}\n" + "".join(f"    r{i} = {fun[ty]}(h[{i}])\n" for i, ty in enumerate(shape))
            loc += "    out = []\n    for e in " + tup + ":\n" + "".join(
                f"        if type(e) == \"{ {'int': 'int', 'str': 'string', 'bool': 'bool'}[ty] }\":\n            out.append({fun[ty]}(e))\n" for ty in dict.fromkeys(shape))
            loc += f"    l = [{', '.join(elems)}]\n    g2 = [u(e) for e in l]\n    return [r0, out, g2]\n"
            loc += f"def u(p: {union}) -> str:\n    return str(p)\nr = loc()\n"
            yield loc
    # comprehensions over sources of KNOWN element type (typed parameters - globals are typed Any), result constrained afterwards
    comps = [("xs: list[str], n: int", "dict[str, int]", "{k: n for k in xs}", "ls, 3"),
             ("xs: list[str]", "dict[str, int]", "{k: len(k) for k in xs}", "ls"),
             ("xs: list[str]", "list[int]", "[len(k) for k in xs]", "ls"),
             ("dd: dict[str, int]", "dict[int, str]", "{v: k for k, v in dd.items()}", "d"),
             ("xs: list[int]", "dict[int, list[int]]", "{e: [e] for e in xs}", "l"),
             ("xs: list[int]", "dict[str, int]", "{str(e): e for e in xs if e > 1}", "l"),
             ("xs: list[str]", "dict[str, bool]", "{k: k == 'p' for k in xs}", "ls"),
             ("xs: list[str]", "dict[int, str]", "{i: k for i, k in enumerate(xs)}", "ls"),
             ("xs: list[int]", "list[(int, str)]", "[(e, str(e)) for e in xs]", "l"),
             ("xs: list[str]", "dict[str, int]", "{a + b: 1 for a in xs for b in xs}", "ls")]
    for params, rt, expr, args in comps:
        yield pre + f"def w({params}) -> {rt}:\n    return {expr}\nr = w({args})\n"
        yield pre + f"def w({params}) -> {rt}:\n    res = {expr}\n    return res\nr = w({args})\n"
    yield pre + "def w(dd: dict[str, int]) -> int:\n    d2 = {k: v + 1 for k, v in dd.items()}\n    return d2['a'] + 1\nr = w(d)\n"
    yield pre + "def w(xs: list[str]) -> int:\n    d2 = {k: len(k) for k in xs}\n    t = 0\n    for k in xs:\n        t += d2[k]\n    return t\nr = w(ls)\n"
    # results that may be None (dict.get, a conditional expression, a search that finds nothing) compared with None / defaulted
    for opt in ["dd.get(k)", "dd.get(k, None)", "(dd[k] if k in dd else None)", "{k: 1}.get('zz')", "[e for e in [1] if e > 5] or None"]:
        for test in ["v == None", "v != None", "None == v", "not v", "v", "type(v) == 'NoneType'"]:
            yield pre + (f"def lk(dd: dict[str, int], k: str) -> int:\n    v = {opt}\n    if {test}:\n        return -1\n    return 7\n"
                         "r = [lk(d, 'a'), lk(d, 'zz')]\n")
        yield pre + f"def lk(dd: dict[str, int], k: str) -> int:\n    return {opt} or 0\nr = [lk(d, 'a'), lk(d, 'zz')]\n" if "for e" not in opt else pre + "r = 1\n"
    ann = {"int": ints, "str": strs, "bool": bools, "list[int]": lists, "dict[str, int]": dicts}
    for ty, exprs in ann.items():
        for e in exprs:
            yield pre + f"def w() -> {ty}:\n    return {e}\nr = w()\nq: {ty} = {e}\ndef u(p: {ty}) -> {ty}:\n    return p\nu({e})\n"
        for e1, e2 in itertools.product(exprs[:5] if tier == "quick" else exprs, repeat=2):
            yield pre + f"def w(c: bool) -> {ty}:\n    if c:\n        return {e1}\n    return {e2}\nz = [w(True), w(False)]\n"
    for (t1, e1s), (t2, e2s) in itertools.product(ann.items(), repeat=2):
        for e1, e2 in itertools.product(e1s[:3], e2s[:3]):
            yield pre + f"def w(a: {t1}, b2: {t2}) -> ({t1}, {t2}):\n    return (a, b2)\nr = w({e1}, {e2})\nk = w(b2 = {e2}, a = {e1})\n"


def denotes(ty, enc):
    """Does the rendered interface type contain the encoded value? None = not judged (unknown rendering)."""
    ty = ty.strip()
    if ty == "typing.Any":
        return True
    if ty == "typing.Never":
        return False
    # top-level union
    depth, parts, cur = 0, [], ""
    for ch in ty:
        if ch in "([":
            depth += 1
        elif ch in ")]":
            depth -= 1
        if ch == "|" and depth == 0:
            parts.append(cur)
            cur = ""
        else:
            cur += ch
    parts.append(cur)
    if len(parts) > 1 and not ty.startswith("def("):
        rs = [denotes(p, enc) for p in parts]
        if any(r is True for r in rs):
            return True
        return None if any(r is None for r in rs) else False
    table = {"str": enc.startswith('s"'), "None": enc == "N", "bool": enc in ("T", "F"), "int": enc.startswith("i"), "float": enc.startswith("f"),
             "tuple": enc.startswith("("), "function": enc.startswith("Xfunction:"), "type": enc.startswith("Xtype:"), "list": enc.startswith("L#"),
             "dict": enc.startswith("D#"), "range": enc.startswith("R")}
    if ty in table:
        return table[ty]
    if ty.startswith("def("):
        return enc.startswith("Xfunction:")
    if ty.startswith("namespace("):
        return enc.startswith("Xnamespace:")
    if ty.startswith("list["):
        return enc.startswith("L#")
    if ty.startswith("dict["):
        return enc.startswith("D#")
    if ty.startswith("tuple["):
        return enc.startswith("(")
    if ty.startswith("struct("):
        return enc.startswith("struct(")
    return None


def analyze(specs, env=None):
    def shard(chunk):
        data = "".join(json.dumps(s) + "\n" for s in chunk)
        p = subprocess.run([vlib.SUT, "analyze"], input=data, stdout=subprocess.PIPE, stderr=subprocess.PIPE, text=True, env=env)
        outs = [json.loads(l) for l in p.stdout.split("\n") if l.strip()]
        if len(outs) != len(chunk):
            outs = outs + [{"id": chunk[len(outs)]["id"], "crash": p.returncode, "stderr": p.stderr[-300:]}]
            outs += [None] * (len(chunk) - len(outs))
        return outs
    from concurrent.futures import ThreadPoolExecutor
    n = max(1, len(specs) // (vlib.NPROC * 4) + 1)
    chunks = [specs[i:i + n] for i in range(0, len(specs), n)]
    with ThreadPoolExecutor(max_workers=vlib.NPROC) as ex:
        return [o for r in ex.map(shard, chunks) for o in r]


def run(tier):
    res = vlib.Result(PID, tier, "exploration")
    q = tier == "quick"
    # ---- part A: soundness of committed interface types
    mods = list(dict.fromkeys(modules(tier)))
    lib_names = ["v", "w", "_l"]
    specs = [{"id": i, "src": m.replace("load('lib.star'", "load('lib.star'"), "names": ["v", "w"], "eval": True} for i, m in enumerate(mods)]
    # load() needs a loader: drop programs with load for the evaluated part (interface still computed without loads)
    specs = [s for s in specs if "load(" not in s["src"]]
    outs = analyze(specs)
    judged = committed = unjudged = 0
    renders = set()
    for s, o in zip(specs, outs):
        if o is None:
            continue
        if "crash" in o or "panic" in o:
            res.violation("C17:crash", {"src": s["src"], "out": o})
            continue
        if "parse_error" in o:
            continue
        vals = o.get("values", {})
        if "$error" in vals:
            continue  # the module fails at run time: nothing to compare
        for n in ("v", "w"):
            ty = o["interface"].get(n)
            if ty is None or n not in vals:
                continue
            renders.add(ty.split("(")[0])
            if ty == "typing.Any":
                continue
            committed += 1
            if o["approximations"]:
                continue
            d = denotes(ty, vals[n])
            if d is None:
                unjudged += 1
            else:
                judged += 1
                if not d:
                    res.violation(f"C17:unsound:{ty.split('(')[0][:30]}", {"src": s["src"], "binding": n, "interface_type": ty, "value": vals[n]})
    # ---- part B: well typed by construction => no errors
    wt = list(dict.fromkeys(well_typed(tier)))
    wspecs = [{"id": i, "src": m, "names": ["r", "q", "z", "k"], "eval": True} for i, m in enumerate(wt)]
    wouts = analyze(wspecs)
    for s, o in zip(wspecs, wouts):
        if o is None:
            continue
        if "crash" in o or "panic" in o:
            res.violation("C17:crash", {"src": s["src"], "out": o})
            continue
        if "parse_error" in o or "$error" in o.get("values", {}):
            raise vlib.Machinery(f"generator produced an invalid well-typed module: {s['src']!r} {o.get('parse_error') or o['values']['$error']}")
        if o["errors"]:
            res.violation("C17:false-error", {"src": s["src"], "errors": o["errors"][:3]})
    # ---- part C: total + deterministic on a large corpus of (mostly ill-typed) modules: twice in-process, and under another hash seed
    corpus = [d + b for _, d, b in gen_opt.all_families(tier)] + [s for _, s, _ in gen_core.f9_functions()] + [s for _, s, _ in gen_core.f6_scoping()]
    corpus += [s for _, s, _ in gen_core.f5_control(3)] + mods[:3000] + wt[:500]
    if q:
        corpus = corpus[::4]
    # totality family: every module of <=2 statements over statement templates with identifier holes x names that are
    # {a list defined before, defined only later, never defined, a builtin function, a type}, at module level and in a def body
    templ = ["{N}.append(1)", "{N}.extend([1])", "{N}.insert(0, 1)", "{N}.append({M})", "{N}.x = 1", "{N}[0] = 1", "{N} += 1", "{N} = {M}",
             "{N}(1)", "z = {N}", "for {N} in {M}:\n    pass", "z = [{N} for {N} in {M}]", "{N}: {M} = 1", "z = lambda {N} = {M}: {N}",
             "z = {N} if {M} else 0", "z = isinstance({N}, {M})", "z = {N}.{M}", "z = {N}[{M}:]", "z = {{{N}: {M}}}", "z = ({N}, {M})[0]",
             "def h({N} = {M}):\n    return {N}", "z = {N} + {M}", "z = {N} in {M}", "z = not {N}", "z = -{N}", "{N}.{M}(1)", "z: list[{N}] = []"]
    names = ["a", "late", "undef", "len", "int"]
    tot = []
    def fill(t):
        out = []
        for n_ in names:
            for m_ in (names if "{M}" in t else [""]):
                out.append(t.replace("{N}", n_).replace("{M}", m_))
        return out
    singles = [x for t in templ for x in fill(t)]
    pair_src = singles if not q else singles[::3]
    for level in ("module", "def"):
        def wrap(body):
            if level == "module":
                return "a = [1]\n" + body + "\nlate = 2\n"
            return "a = [1]\ndef g(p):\n" + "".join("    " + l + "\n" for l in body.split("\n")) + "    return p\nlate = 2\n"
        for x in singles:
            tot.append(wrap(x))
        for x in pair_src[::7]:
            for y in pair_src[::5]:
                tot.append(wrap(x + "\n" + y))
    corpus += tot
    corpus = list(dict.fromkeys(corpus))
    cspecs = [{"id": i, "src": m, "names": ["v", "f", "x"], "eval": False} for i, m in enumerate(corpus)]
    a = analyze(cspecs + cspecs)
    first, second = a[:len(cspecs)], a[len(cspecs):]
    env2 = dict(os.environ, VERIF_HASH_SEED="12345", LD_PRELOAD=SHIM) if os.path.exists(SHIM) else None
    if env2 is None:
        from checks import c14
        c14.build_shim()
        env2 = dict(os.environ, VERIF_HASH_SEED="12345", LD_PRELOAD=SHIM)
    third = analyze(cspecs, env=env2)
    for s, x, y, z in zip(cspecs, first, second, third):
        if x is None or y is None or z is None:
            continue
        if any("crash" in t or "panic" in t for t in (x, y, z)):
            res.violation("C17:crash", {"src": s["src"], "out": [t for t in (x, y, z) if "crash" in t or "panic" in t][0]})
        elif x != y:
            res.violation("C17:nondeterministic-in-process", {"src": s["src"], "first": x, "second": y})
        elif x != z:
            res.violation("C17:nondeterministic-across-processes", {"src": s["src"], "seed_default": x, "seed_12345": z})
    res.coverage = {
        "evaluations": len(specs) + len(wspecs) + 3 * len(cspecs),
        "distinct_nontrivial": len(mods) + len(wt),
        "rule": "A: every module of <=2 statements over 17 binding forms (plain/augmented/tuple/list assignment, for targets, "
                "conditional and loop-body assignment, self-referential, via another variable, conditional expression, def, lambda, "
                "comprehension variable) x 32 right-hand sides (15 the checker types definitely, 17 it does not): for each exported "
                "binding whose interface type is not Any and with no approximation flagged, the value after evaluation must belong to "
                "the rendered type. B: modules well typed by construction over int/str/bool/list[int]/dict[str,int] (annotated defs, "
                "returns, annotated assignments, calls by position and keyword): zero errors. C: totality family (every module of <=2 "
                "statements over 27 statement templates with identifier holes x {defined list, defined later, undefined, builtin, type}, "
                "at module level and in a def) + generated corpus (optimiser, scoping, "
                "control-flow families, mostly ill-typed): no crash, identical diagnostics twice in-process and under another std hash "
                "seed. distinct_nontrivial = distinct modules in A and B",
        "committed_bindings": committed, "judged": judged, "unjudged_renderings": unjudged, "render_heads": sorted(renders)[:40],
        "well_typed_modules": len(wt), "corpus": len(corpus),
        "samples": [mods[7][len(PRE):], wt[3][-160:], corpus[5][-200:]],
    }
    res.assumptions = ["rendered types are mapped to value classes by py/checks/c17.py::denotes; renderings it does not know are not judged"]
    return res


def replay(path):
    rep = json.load(open(path))["replay"]
    o = analyze([{"id": 0, "src": rep["src"], "names": ["v", "w", "r", "q", "z", "k"], "eval": True}])[0]
    print(json.dumps({"src": rep["src"], "now": o}, indent=1)[:3000])
    return 1
