"""C20 — a frozen module / Globals shared read-only between threads: concurrent evaluations that load it, call its
functions, hash its values, and build, freeze and drop their own modules never crash and never see anything a
single thread would not see.

Layer L2 (deciding): preemption-bounded exhaustive exploration of the REAL code under a controlled scheduler.  The
cfg(starlark_verif) hook H3 turns every operation on the shared mutable words of a frozen heap (chunk reference
counts, lazily cached string hashes, the per-thread chunk cache hand-over) into a scheduling point; the harness
(harness/sut/src/c20.rs) runs the threads one at a time (baton passing), enumerates every schedule with at most
`bound` preemptions by DFS with prefix replay, and judges every complete execution: per-thread observations equal
those of the serial reference execution; no panic; monitors: no chunk freed twice, no reference-count operation on
a freed chunk (freed memory is poisoned 0xDD so that a dangling read is a wrong read).

Layer L0 (supplementary, sampled): the L1 operation alphabet on 2-16 free-running threads, results compared with solo
results -- the only layer in which the effect of a plain-memory data race can show (the controlled scheduler cannot split two
plain accesses that lie between two intercepted operations).  It never decides the property.

Layer L1: every interleaving of whole operations (2-3 threads x 1-2 ops, each interleaving in a fresh process so
that process-wide lazily built state -- Globals::standard, method tables, static string hashes -- is first touched in
every possible order): per-thread results equal the solo results.
"""
import itertools
import json

import vlib

PID = "C20"

L1_OPS = ["globals_std", "globals_ext", "load_call", "hash_values", "build_freeze_drop", "build_and_publish",
          "take_and_drop", "record_enum", "type_compiled"]


def l2_specs(tier):
    q = tier == "quick"
    specs = []

    def add(body, bound, parts=1, reduce=False, cap=400000):
        for k in range(parts):
            s = {"id": len(specs), "body": body, "bound": bound, "cap": cap, "reduce": reduce}
            if parts > 1:
                s["split"] = [k, parts]
            specs.append(s)

    if q:
        # every scheduling point is a preemption candidate
        add("chunk_share", 2)
        add("chunk_share3", 2, 2)
        add("load_freeze_drop", 2, 2)
        add("handoff", 2, 2)
        add("str_hash2", 2, 2)
        add("static_hash", 2, 4)
        add("str_hash", 1)
        # partial-order reduction (preempt only before an operation that a later operation of another thread conflicts
        # with): deeper bounds
        add("chunk_share", 4, reduce=True)
        add("chunk_share3", 4, reduce=True)
        add("load_freeze_drop", 6, reduce=True)
        add("handoff", 3, 2, reduce=True)
        add("handoff3", 2, 2, reduce=True)
        add("handoff_rebuild", 2, 2, reduce=True)
        add("static_hash", 6, reduce=True)
        add("static_hash3", 4, 3, reduce=True)
    else:
        add("chunk_share", 3, 2)
        add("chunk_share3", 3, 8)
        add("load_freeze_drop", 3, 8)
        add("handoff", 3, 12)
        add("handoff3", 2, 8)
        add("handoff_rebuild", 2, 8)
        add("str_hash2", 3, 8)
        add("str_hash", 2, 24)
        add("static_hash", 3, 12)
        add("static_hash3", 2, 8)
        add("chunk_share", 6, 2, reduce=True, cap=150000)
        add("chunk_share3", 6, 2, reduce=True, cap=150000)
        add("load_freeze_drop", 10, reduce=True, cap=150000)
        add("handoff", 4, 8, reduce=True, cap=150000)
        add("handoff3", 3, 8, reduce=True, cap=150000)
        add("handoff_rebuild", 3, 8, reduce=True, cap=150000)
        add("static_hash", 10, reduce=True, cap=150000)
        add("static_hash3", 5, 8, reduce=True, cap=150000)
    return specs


def interleavings(lens):
    """All orders (as lists of thread ids) of threads with the given operation counts."""
    seq = [t for t, n in enumerate(lens) for _ in range(n)]
    return sorted(set(itertools.permutations(seq)))


def l1_specs(tier):
    q = tier == "quick"
    specs, meta = [], []
    # solo runs (reference)
    for op in L1_OPS:
        specs.append({"id": len(specs), "layer": "l1", "threads": [[op]], "order": [0]})
        meta.append(("solo", op))
    # ordered pairs of single operations on two threads (both orders) -- first-use order of every lazily built global
    pairs = list(itertools.product(L1_OPS, repeat=2))
    for a, b in pairs:
        for order in ([0, 1], [1, 0]):
            specs.append({"id": len(specs), "layer": "l1", "threads": [[a], [b]], "order": order})
            meta.append(("pair", (a, b), tuple(order)))
    # 2 threads x 2 ops and 3 threads x 1-2 ops over a smaller alphabet: all interleavings
    small = ["load_call", "hash_values", "build_freeze_drop", "build_and_publish", "take_and_drop"]
    if q:
        progs = [(("build_and_publish", "hash_values"), ("take_and_drop", "load_call")),
                 (("hash_values", "build_freeze_drop"), ("hash_values", "take_and_drop")),
                 (("build_and_publish",), ("take_and_drop",), ("build_freeze_drop", "hash_values"))]
    else:
        progs = [(a, b) for a in itertools.product(small, repeat=2) for b in itertools.product(small, repeat=2)]
        progs += [((a,), (b,), (c,)) for a in small for b in small for c in small]
    for p in progs:
        for order in interleavings([len(t) for t in p]):
            specs.append({"id": len(specs), "layer": "l1", "threads": [list(t) for t in p], "order": list(order)})
            meta.append(("multi", p, order))
    return specs, meta


def run(tier):
    res = vlib.Result(PID, tier, "model_checking")
    # ---- L2
    s2 = l2_specs(tier)
    outs = vlib.run_sut("c20", s2, shard=1, timeout=6 * 3600)
    schedules = 0
    per_body = {}
    outcomes = 0
    capped = False
    for s, o in zip(s2, outs):
        name = f"{s['body']}/bound{s['bound']}" + ("/reduced" if s.get("reduce") else "")
        if "crash" in o or "panic" in o:
            res.violation(f"C20:L2:crash:{s['body']}", {"spec": s, "out": {k: o[k] for k in o if k != "id"}})
            continue
        if o.get("machinery"):
            raise vlib.Machinery(f"L2 {name}: {o['machinery']} {json.dumps(o)[:400]}")
        v = o.get("violation")
        if v and "machinery" in v:
            raise vlib.Machinery(f"L2 {name}: {v['machinery']}")
        pb = per_body.setdefault(name, {"schedules": 0, "max_points": 0, "shared_addresses": 0, "parts": 0, "distinct_outcomes": 0})
        pb["schedules"] += o["schedules"]
        pb["parts"] += 1
        pb["max_points"] = max(pb["max_points"], o["max_points"])
        pb["shared_addresses"] = max(pb["shared_addresses"], o["addresses_touched_by_several_threads"])
        pb["distinct_outcomes"] = max(pb["distinct_outcomes"], o["distinct_outcomes"])
        schedules += o["schedules"]
        if o["capped"]:
            capped = True
            res.cap_hit(f"{name}: schedule cap reached after {o['schedules']} schedules")
        if o["addresses_touched_by_several_threads"] == 0 and not v:
            raise vlib.Machinery(f"L2 {name}: vacuous — no intercepted address is touched by more than one thread")
        if v:
            kind = "fault" if "fault" in v else "differs"
            if kind == "fault":
                f = v["fault"]
                kind = ("double-free" if f.startswith("double free") else "use-after-free" if "use after free" in f
                        else "crash" if "died on a signal" in f else "fault")
            res.violation(f"C20:L2:{kind}:{s['body']}", {"body": s["body"], "bound": s["bound"], "schedule": v["schedule"],
                                                          "what": v.get("fault") or v.get("differs"), "events_tail": v["events"][-40:]})
    # ---- L1
    s1, meta = l1_specs(tier)
    o1 = vlib.run_sut("c20", s1, shard=1, timeout=600)
    solo = {}
    for m, o in zip(meta, o1):
        if m[0] == "solo":
            if "results" not in o:
                raise vlib.Machinery(f"L1 solo {m[1]}: {json.dumps(o)[:300]}")
            solo[m[1]] = o["results"][0][0]
    l1_distinct = set()
    for s, m, o in zip(s1, meta, o1):
        if m[0] == "solo":
            continue
        if "results" not in o:
            res.violation("C20:L1:crash", {"spec": s, "out": {k: o[k] for k in o if k != "id"}})
            continue
        threads = s["threads"]
        for t, ops in enumerate(threads):
            for i, op in enumerate(ops):
                got = o["results"][t][i] if i < len(o["results"][t]) else "<missing>"
                want = solo[op]
                if got != want:
                    res.violation(f"C20:L1:differs:{op}", {"spec": s, "thread": t, "op": op, "solo": want, "got": got})
        l1_distinct.add(json.dumps([threads, s["order"]]))
    # ---- L0 (supplementary, sampled, NOT part of the exhaustive claim): the operation alphabet under true parallelism
    free_ops = ["empty_iter", "iter_shared", "load_call", "hash_values", "build_freeze_drop", "build_and_publish", "take_and_drop",
                "record_enum", "type_compiled", "globals_ext"]
    fspecs = [{"id": i, "layer": "free", "threads": t, "rounds": (600 if tier == "quick" else 6000), "ops": free_ops[k:] + free_ops[:k]}
              for i, (t, k) in enumerate([(8, 0), (16, 3), (3, 5), (2, 0)])]
    fouts = vlib.run_sut("c20", fspecs, shard=1, nproc=2, timeout=1800)
    free_operations = 0
    for s, o in zip(fspecs, fouts):
        if "crash" in o or "panic" in o:
            res.violation("C20:free-running:crash", {"spec": s, "out": {k: o[k] for k in o if k != "id"}})
            continue
        free_operations += o["operations"]
        for b in o["mismatches"]:
            res.violation(f"C20:free-running:differs:{b.get('op')}", {"spec": s, "mismatch": b})
    res.coverage = {
        "free_running_sampled": {"operations": free_operations, "runs": len(fspecs),
                                 "note": "supplementary smoke pass under true parallelism (OS scheduler); sampled, can only add alarms; "
                                         "not counted in states/transitions and not part of the exhaustive claim"},
        "states": schedules + len(l1_distinct),
        "transitions": sum(pb["schedules"] * pb["max_points"] for pb in per_body.values()),
        "traces_validated_against_impl": schedules + len(l1_distinct),
        "samples": [{"L2": {"body": s2[0]["body"], "bound": s2[0]["bound"], "first_events_of_serial_schedule": outs[0].get("sample_events"),
                            "reference_observations": outs[0].get("reference")}},
                    {"L1": s1[len(L1_OPS) + 3]}],
        "L2_schedules": schedules,
        "L2_per_body": per_body,
        "L1_interleavings": len(l1_distinct),
        "explanation": "No separate model: the explorer drives the implementation itself, so every explored schedule IS an "
                       "implementation trace (states = complete executions explored; transitions ~ schedules x scheduling points "
                       "per execution, an upper bound). L2: DFS over schedules with <= bound preemptions (switching away from a "
                       "runnable thread) at the H3 scheduling points; replaying a prefix must reproduce the same event sequence "
                       "(else machinery error); the serial reference is run twice and must agree with itself. Bodies: "
                       "chunk_share (two frozen heaps sharing one allocator chunk read+dropped on two threads while one builds "
                       "and freezes a new module), chunk_share3 (+ a third thread allocating/freeing frozen heaps), "
                       "load_freeze_drop (a module loading two shared ones is built, frozen and dropped while another thread "
                       "calls the shared functions), handoff / handoff3 (X builds a heap and hands it to Y through a blocking wait, "
                       "then builds two more heaps out of the cached remainder of the same chunk while Y reads and drops the first; "
                       "handoff3 adds an unrelated allocating thread; in handoff_rebuild Y goes on to build heaps of its own out of the part "
                       "of that chunk that its drop put into Y's cache, so both threads carve the same chunk), str_hash / str_hash2 (frozen strings of a shared module "
                       "hashed and used as dict keys on 3 / 2 threads), static_hash / static_hash3 (first use of the process-wide "
                       "static one-byte strings as dict keys on 2 / 3 threads; their lazily cached hash is reset before every "
                       "execution by hook H5). '/reduced' runs preempt only before an operation with which a LATER operation "
                       "of another thread conflicts (same word, one of them a write) -- a partial-order reduction; the unreduced "
                       "runs of the same bodies at a lower bound cross-check it. L2_per_body.shared_addresses = intercepted words touched by more "
                       "than one thread (0 would be a vacuous harness: machinery error). L1: all interleavings of whole "
                       "operations, each in a fresh process.",
        "exhaustive": not capped,
    }
    res.assumptions = [
        "sequentially consistent interleavings only: weak-memory reorderings are not explored (all intercepted atomics are SeqCst or "
        "Relaxed single-word caches of a pure function, see DESIGN)",
        "scheduling points are the H3 sites; accesses to plain (non-atomic) memory between two points are atomic blocks — a data race "
        "on plain memory is only observed through its effect on the observations or the poison pattern",
        "AtomicFrozenAnyValueOption / TypeInstanceId counters / once_cell statics are not intercepted (L1 covers their first-use order "
        "at operation granularity only)",
    ]
    return res


def replay(path):
    rep = json.load(open(path))["replay"]
    if "schedule" in rep:
        spec = {"id": 0, "body": rep["body"], "bound": rep["bound"], "replay": rep["schedule"]}
    else:
        spec = rep["spec"]
    outs = vlib.run_sut("c20", [spec], shard=1)
    print(json.dumps(outs[0], indent=1)[:6000])
    return 1
