"""C07 — evaluation is total and recoverable.
Part 1: every builtin / method (discovered) x all argument tuples of arity 0..2 (3 where cheap) from a hostile catalogue.
Part 2: all sequences of succeeding / failing evaluations on ONE evaluator + module; state checks after every step."""
import itertools
import re
import json
import subprocess

import vlib

PID = "C07"
HARNESS_OWN = {"emit", "opaque", "depth_probe", "cancel_now", "intern", "host_str", "set_later", "set_extra", "get_extra",
               "call_native", "fails", "probe", "modvar", "tick_count", "type_matches", "True", "False", "None"}
CATALOGUE = ["0", "1", "-1", "2147483647", "2147483648", "-2147483648", "-2147483649", "9223372036854775807", "-9223372036854775808", "9223372036854775808", "-18446744073709551616", "100000",
             "0.0", "-0.0", "1.5", "float('inf')", "float('nan')", "None", "True", "False", '""', '"a"', '"%s"', '"{}"', '"\\U0001F600"',
             "[]", '[1, "a"]', "SELF", "{}", "{(1, 2): 3}", "()", "(1,)", "range(3)", "(lambda x: x)", "struct(a = 1)", "set([1])",
             "len", "int", "b'ab'" if False else '"x" * 70']
WITNESSES = {"str": '"abc"', "list": "[1, 2]", "dict": '{"a": 1}', "set": "set([1, 2])", "tuple": "(1, 2)", "int": "5", "float": "1.5",
             "bool": "True", "none": "None", "range": "range(4)", "struct": "struct(a = 1, b = [2])", "record_type": "REC",
             "record": "REC(x = 1)", "enum_type": "ENM", "enum": "ENM('p')", "function": "FUN", "lambda": "(lambda x, y = 1: x)",
             "partial": "partial(FUN, 1)", "native": "len", "type": "int", "typing": "typing", "json": "json",
             "internal": "starlark_rust_internal", "bigint": "(1 << 70)", "bytes_or_str": '"\\u00e9"', "namespace": "namespace(a = 1)"}
PRE = "REC = record(x = int)\nENM = enum('p', 'q')\ndef FUN(a, b = 2):\n    return [a, b]\nSELF = [1]\nSELF.append(SELF)\n"
KW = ["key", "reverse", "default", "start", "end", "sep", "base", "x", "count", "maxsplit", "a", "zz"]


def discover():
    p = subprocess.run([vlib.SUT, "globals"], stdout=subprocess.PIPE, text=True)
    gl = [g for g in json.loads(p.stdout) if g not in HARNESS_OWN and g != "breakpoint"]
    outs = vlib.run_sut("run", [{"id": k, "steps": [PRE + f"emit(dir({w}))"]} for k, w in WITNESSES.items()])
    targets = [(g, g) for g in gl]
    for (k, w), o in zip(WITNESSES.items(), outs):
        st = o["steps"][0]
        if st["err"]:
            raise vlib.Machinery(f"dir({w}) failed: {st['err']}")
        for n in st["out"][0][4:-1].split(","):
            if n:
                targets.append((f"{k}.{n[2:-1]}", f"({w}).{n[2:-1]}"))
    return targets


SNIPPETS = {
    "ok1": "a1 = [1]\nemit(a1)\n",
    "ok2": "def f2(x):\n    return [x]\na2 = f2(2)\nemit(a2)\n",
    "top_fail": "emit(0)\nb = [][1]\nemit(1)\n",
    "deep_fail": "def g3():\n    return {}['k']\ndef g2():\n    return g3() + 1\ndef g1():\n    return [g2()]\nemit(0)\ng1()\n",
    "for_in_call": "def h(xs):\n    for x in xs:\n        for y in xs:\n            if y == 2:\n                fail('in loop')\n    return 0\nh([1, 2, 3])\n",
    "compr": "emit([1 // (2 - i) for i in range(5)])\n",
    "sorted_key": "def k(x):\n    return x.nope\nemit(sorted([3, 1, 2], key = k))\n",
    "overflow": "def r(n):\n    return r(n + 1) + 1\nr(0)\n",
    "iter_mut": "l9 = [1, 2]\nfor x in l9:\n    l9.append(x)\n",
    "loaded_fail": "load('lib.star', 'lf')\nemit(lf(1))\nlf(0)\n",
    "scope_err": "emit(1)\nundefined_name_xyz\n",
    "parse_err": "emit(1)\ndef (:\n",
    "native_reentry": "emit(call_native(lambda: 5))\ncall_native(lambda: [][1])\n",
    "load_missing": "load('nope.star', 'x')\n",
    "kwargs_fail": "def kw(a, *, b):\n    return a\nkw(1, 2)\n",
    "type_fail": "def ty(a: int) -> str:\n    return a\nty(1)\n",
    "ok3_closure": "def mk():\n    c = [0]\n    def inc():\n        c[0] += 1\n        return c[0]\n    return inc\ni3 = mk()\nemit([i3(), i3()])\n",
}
LIB = [["lib.star", "def lf(x):\n    return 10 // x\n"]]
PROBE = ("def pr(n):\n    return n if n < 2 else pr(n - 1) + pr(n - 2)\n"
         "emit([pr(10), sorted([3, 1, 2], key = lambda x: -x), [i * 2 for i in range(3)], depth_probe()])\n"
         "emit([modvar('a1'), modvar('a2'), modvar('i3') != None])\n")


def run(tier):
    res = vlib.Result(PID, tier, "exploration")
    q = tier == "quick"
    targets = discover()
    vlib.log(f"[C07] {len(targets)} callables discovered")
    # ---------------- part 1
    cat = CATALOGUE
    specs, meta = [], []
    CH = 300

    def calls_for(expr):
        yield f"{expr}()"
        for a in cat:
            yield f"{expr}({a})"
        for a, b in itertools.product(cat, repeat=2):
            yield f"{expr}({a}, {b})"
        for k in KW:
            yield f"{expr}({k} = 1)"
            yield f"{expr}([2, 1], {k} = None)"
            yield f"{expr}({k} = SELF)"
        yield f"{expr}(*[1, 2, 3, 4, 5, 6, 7, 8])"
        yield f"{expr}(**{{'a': 1, 'b': 2}})"
        yield f"{expr}(1, 2, 3, 4)"
        yield f"{expr}(*SELF)"
        yield f"{expr}(**{{1: 2}})"

    small = cat[:12] + ["None", '""', "[]", "SELF", "{}", "(lambda x: x)"]
    alias_args = ["r", "[r]", "(r,)", "{1: r}", "[(1, r)]", "[[r]]", "r, r", "[r], r", "k = r", "*[r]", "**{'k': r}", "lambda: r"]
    for name, expr in targets:
        cl = list(calls_for(expr))
        if "." in name and expr.startswith("("):
            # the receiver itself (or a container holding it) as argument of its own method
            recv, meth = expr.rsplit(".", 1)
            cl += [f"(lambda r: r.{meth}({a}))({recv})" for a in alias_args]
        if not q:
            # arity 3 over a reduced catalogue
            cl += [f"{expr}({a}, {b}, {c})" for a, b, c in itertools.product(small, repeat=3)]
        for i in range(0, len(cl), CH):
            chunk = cl[i:i + CH]
            src = PRE + "".join(f"emit(probe(lambda: {c}))\n" for c in chunk)
            specs.append({"steps": [src]})
            meta.append(("calls", name, chunk))
    # operators and syntax forms on all catalogue pairs (ill-typed programs)
    ops = ["+", "-", "*", "/", "//", "%", "&", "|", "^", "<<", ">>", "==", "<", "in", "and"]
    big_safe = lambda a, b, op: not (op in ("*", "<<") and any(x in (a, b) for x in ("2147483647", "2147483648", "-2147483648", "-2147483649", "9223372036854775807", "-9223372036854775808", "9223372036854775808", "-18446744073709551616", "100000", "float('inf')")))
    cl = [f"({a}) {op} ({b})" for a, b in itertools.product(cat, repeat=2) for op in ops if big_safe(a, b, op)]
    cl += [f"{u}({a})" for a in cat for u in ("-", "+", "~", "not ")]
    cl += [f"({a})[{b}]" for a, b in itertools.product(cat, repeat=2)]
    cl += [f"({a})[{b}:{c}]" for a, b, c in itertools.product(cat[:20], ["", "1", "-1", "None", '"a"', "9223372036854775808"], ["", "0", "2", "[]"])]
    cl += [f"({a}).{n}" for a in cat for n in ("a", "nope", "append", "x")]
    cl += [f"[x for x in ({a})]" for a in cat] + [f"{{x: 1 for x in ({a})}}" for a in cat] + [f"[1 for x, y in ({a})]" for a in cat]
    cl += [f"'%s %d' % ({a})" for a in cat] + [f"'{{}} {{x}}'.format({a}, x = {b})" for a, b in itertools.product(cat[:10], cat[10:20])]
    for i in range(0, len(cl), CH):
        chunk = cl[i:i + CH]
        specs.append({"steps": [PRE + "".join(f"emit(probe(lambda: {c}))\n" for c in chunk)]})
        meta.append(("calls", "operators", chunk))
    n_part1 = len(specs)
    # ---------------- part 2: histories on one evaluator
    names = list(SNIPPETS)
    solo = {}
    for n in names:
        specs.append({"libs": LIB, "steps": [SNIPPETS[n]]})
        meta.append(("solo", n, None))
    specs.append({"libs": LIB, "steps": [PROBE]})
    meta.append(("probe0", None, None))
    L = 2 if q else 4
    for n in range(1, L + 1):
        for seq in itertools.product(names, repeat=n):
            steps = []
            for s in seq:
                steps += [SNIPPETS[s], PROBE]
            specs.append({"libs": LIB, "steps": steps})
            meta.append(("hist", seq, None))
            if n <= 2:
                specs.append({"libs": LIB, "steps": steps, "opts": {"fresh_eval_each_step": True}})
                meta.append(("hist-fresh-eval", seq, None))
    # ---------------- part 3: deep and cyclic values through natively recursive operations: a result or an error, never a crash
    for k in (10, 100, 1000, 5000, 20000):
        for op in ("str(x)", "repr(x)", "json.encode(x)", "x == y", "x < y", "hash(t)", "len(str(t))", "[x] == [y]", "{1: x} == {1: y}",
                   "sorted([x, y])", "x in [y]", "(x, 1) == (y, 1)", "json.encode(t)", "str(dd)", "json.encode(dd)", "dd == dd2"):
            src = (f"x = []\ny = []\nt = ()\ndd = {{}}\ndd2 = {{}}\nfor i in range({k}):\n    x = [x]\n    y = [y]\n    t = (t,)\n"
                   f"    dd = {{1: dd}}\n    dd2 = {{1: dd2}}\nemit(probe(lambda: {op}))\n")
            specs.append({"steps": [src, PROBE]})
            meta.append(("deep", (k, op), None))
    for op in ("str(c)", "repr(c)", "json.encode(c)", "c == c2", "c < c2", "sorted([c, c2])", "str(d)", "d == d2", "json.encode(d)", "c in [c2]",
               "hash((1, c))", "'%s' % (c,)", "'{}'.format(c)", "prepr(c)", "pstr(d)"):
        src = f"c = [1]\nc.append(c)\nc2 = [1]\nc2.append(c2)\nd = {{}}\nd[1] = d\nd2 = {{}}\nd2[1] = d2\nemit(probe(lambda: {op}))\n"
        specs.append({"steps": [src, PROBE]})
        meta.append(("deep", ("cyclic", op), None))
    for i, s in enumerate(specs):
        s["id"] = i
        s.setdefault("opts", {})["dialect"] = "all"
        s["opts"]["max_stack"] = 40
    vlib.log(f"[C07] {n_part1} call batches, {len(specs) - n_part1} history programs")
    env = dict(__import__("os").environ)
    outs = vlib.run_sut("run", specs, timeout=3600)
    n_calls = 0
    outcomes = {"ok": 0, "err": 0}
    distinct = set()
    # solo baselines
    for s, (kind, a, b), o in zip(specs, meta, outs):
        if kind == "solo" and "steps" in o:
            st = o["steps"][0]
            solo[a] = (st["out"], st["err"] and (st["err"]["kind"], st["err"]["msg"]))
        if kind == "probe0" and "steps" in o:
            probe0 = o["steps"][0]["out"]
    for s, (kind, a, b), o in zip(specs, meta, outs):
        if kind == "deep":
            k, op = a
            if "crash" in o or "panic" in o:
                res.violation("C07:crash:json-deep" if (op.startswith("json.encode") and k != "cyclic") else f"C07:crash:deep:{op.split('(')[0]}",
                              {"depth": k, "op": op, "out": str(o)[:400], "spec": s})
            elif o["steps"][0]["err"] is not None or o["steps"][1]["err"] is not None or o["steps"][0]["out"][0] not in ('s"ok"', 's"err"'):
                res.violation(f"C07:deep-malformed:{op.split('(')[0]}", {"depth": k, "op": op, "steps": [x["out"] for x in o["steps"]], "spec": s})
            continue
        if "crash" in o or "panic" in o:
            if kind == "calls":
                bad = isolate(b, o)
                cyc = bad and "SELF" in bad["call"] and a == "debug"
                res.violation("C07:crash:debug" if cyc else f"C07:crash:{a}", {"callable": a, "call": bad, "out": str(o)[:600]})
            else:
                res.violation("C07:crash:history", {"seq": a, "out": str(o)[:600], "spec": s})
            continue
        if kind == "calls":
            st = o["steps"][0]
            if st["err"] is not None:
                res.violation(f"C07:batch-aborted:{a}", {"callable": a, "err": st["err"], "reached": len(st["out"]),
                                                         "call": b[len(st["out"])] if len(st["out"]) < len(b) else None})
                continue
            for c, r in zip(b, st["out"]):
                n_calls += 1
                if r == 's"ok"':
                    outcomes["ok"] += 1
                elif r == 's"err"':
                    outcomes["err"] += 1
                else:
                    res.violation(f"C07:malformed-error:{r.split(':')[1] if ':' in r else r}", {"callable": a, "call": c, "probe": r})
            distinct.add((a, tuple(st["out"])))
            if st["stack_count"] != 0:
                res.violation("C07:stack-not-empty", {"callable": a, "stack_count": st["stack_count"]})
        elif kind in ("hist", "hist-fresh-eval"):
            steps = o["steps"]
            for i, sn in enumerate(a):
                st, pr = steps[2 * i], steps[2 * i + 1]
                got = (st["out"], st["err"] and (st["err"]["kind"], re.sub(r"step\d+\.star", "step0.star", st["err"]["msg"])))
                if got != solo.get(sn):
                    res.violation(f"C07:history-outcome:{sn}", {"seq": a, "step": i, "alone": solo.get(sn), "in_sequence": got, "spec": s})
                if st["stack_count"] != 0 or pr["stack_count"] != 0:
                    res.violation(f"C07:stack-not-empty:{sn}", {"seq": a, "step": i, "stack_count": st["stack_count"], "spec": s})
                if st["err"] and not (st["err"]["span_ok"] and st["err"]["frames_ok"]):
                    res.violation(f"C07:malformed-error:{sn}", {"seq": a, "step": i, "err": st["err"], "spec": s})
                if st["err"] and st["err"]["span"] is None and sn not in ("load_missing",):
                    res.violation(f"C07:error-without-span:{sn}", {"seq": a, "step": i, "err": st["err"], "spec": s})
                # probe: same computation results as on a fresh evaluator; module variables of earlier successes intact
                if pr["err"] is not None or pr["out"][0] != probe0[0]:
                    res.violation(f"C07:probe-differs-after:{sn}", {"seq": a, "step": i, "fresh": probe0[0], "got": pr["out"], "err": pr["err"], "spec": s})
                else:
                    want, nid = [], 1
                    for nm, val in (("ok1", "i1"), ("ok2", "i2")):
                        if nm in a[:i + 1]:
                            want.append(f"L#{nid}[{val}]")
                            nid += 1
                        else:
                            want.append("N")
                    want.append("T" if "ok3_closure" in a[:i + 1] else "F")
                    if pr["out"][1] != "L#0[" + ",".join(want) + "]":
                        res.violation(f"C07:module-vars-after:{sn}", {"seq": a, "step": i, "want": want, "got": pr["out"][1], "spec": s})
            distinct.add((a, kind))
    res.coverage = {
        "evaluations": n_calls + sum(len(m[1]) for m in meta if m[0].startswith("hist")),
        "distinct_nontrivial": len(distinct),
        "rule": f"part 1: {len(targets)} callables DISCOVERED (every global of the extended environment + every attribute of 26 "
                f"witness values) x all argument tuples of arity 0,1,2 over a {len(cat)}-value hostile catalogue (+ keyword, *args, "
                "**kwargs, arity-4 shapes; arity 3 over 9 values in thorough) + every binary/unary operator, index, slice, attribute, "
                "comprehension and format form on catalogue pairs: each call returns a value or an error with a span inside its file "
                "and a resolvable call stack (probe native), never a panic/abort. part 2: all sequences of length <= 2/3 over 17 "
                "snippets (successes; failures at top level, 3 frames deep, in loops in calls, comprehension, native callback, stack "
                "overflow, mutation-during-iteration, loaded function, scope error, parse error, native re-entry, missing load, "
                "binding and type errors) on one Evaluator+Module (and with a fresh Evaluator per step): outcome == outcome alone, "
                "call stack empty, probe program == fresh evaluator, earlier module variables intact",
        "calls": n_calls, "call_outcomes": outcomes, "history_programs": len(specs) - n_part1,
        "samples": [meta[0][2][5], meta[n_part1 // 2][2][10], list(SNIPPETS.values())[3]],
    }
    res.assumptions = ["results larger than memory are out of scope (operators * and << with huge operands are not generated)"]
    return res


def isolate(chunk, o):
    """Find the call in a crashed batch: run each call alone."""
    outs = vlib.run_sut("run", [{"id": i, "steps": [PRE + f"emit(probe(lambda: {c}))\n"], "opts": {"dialect": "all"}} for i, c in enumerate(chunk)], shard=8)
    for c, x in zip(chunk, outs):
        if "crash" in x or "panic" in x:
            return {"call": c, "result": {k: x[k] for k in x if k in ("crash", "panic", "stderr")}}
    return None


def replay(path):
    rep = json.load(open(path))["replay"]
    if "spec" in rep:
        o = vlib.run_sut("run", [rep["spec"]])[0]
        print(json.dumps(o, indent=1)[:3000])
        return 1
    c = rep["call"]["call"] if isinstance(rep.get("call"), dict) else rep.get("call")
    o = vlib.run_sut("run", [{"id": 0, "steps": [PRE + f"emit(probe(lambda: {c}))\n"], "opts": {"dialect": "all"}}])[0]
    print(json.dumps({"call": c, "out": o}, indent=1)[:3000])
    bad = "crash" in o or "panic" in o or (o["steps"][0]["out"] and o["steps"][0]["out"][0] not in ('s"ok"', 's"err"'))
    return 1 if bad else 0
