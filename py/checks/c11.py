"""C11 — explicit-state BFS over the real starlark_map containers vs a Vec-of-pairs model."""
import json

import vlib

PID = "C11"
PATS = ["Natural", "Distinct", "AllEqual", "Pairs", "LowBits", "HighBits"]
MAP_STARTS = ["empty", "fill15", "fill16", "fill17", "fill18", "cap20_15", "cap20_17", "shrunk15", "shrunk16", "shrunk17"]


def jobs(tier):
    q = tier == "quick"
    js = []
    for p in PATS:
        for s in MAP_STARTS:
            if s == "empty":
                d = 8 if q else 12
            else:
                d = 4 if q else 6
            js.append((f"map/{p}/{s}", d))
        for n in (0, 15, 16, 17):
            js.append((f"set/{p}/{n}", (6 if n == 0 else 4) if q else (10 if n == 0 else 6)))
    js.append(("vec2/6", 7 if q else 10))
    js.append(("vec2cap/5", 7 if q else 10))
    js.append(("unord", 11 if q else 14))
    js.append(("ord", 8 if q else 12))
    return js


def run(tier):
    res = vlib.Result(PID, tier, "model_checking")
    js = jobs(tier)
    cap = 400000 if tier == "quick" else 6000000
    specs = [{"id": i, "job": j, "depth": d, "states": cap} for i, (j, d) in enumerate(js)]
    # longest first
    outs = vlib.run_sut("c11", specs, shard=1, timeout=7200)
    states = trans = 0
    closed, capped, per_job = [], [], {}
    for (j, d), o in zip(js, outs):
        if "crash" in o:
            res.violation(f"C11:crash:{j.split('/')[0]}", {"job": j, "depth": d, "crash": o})
            continue
        states += o["states"]
        trans += o["transitions"]
        per_job[j] = {"states": o["states"], "transitions": o["transitions"], "depth": o["max_depth"], "closed": o["closed"]}
        if o["closed"]:
            closed.append(j)
        elif o["states"] >= cap:
            capped.append(j)
        if o["violation"]:
            v = o["violation"]
            last = v["trace"][-1] if v["trace"] else "start"
            res.violation(f"C11:{j.split('/')[0]}:{last.split('(')[0]}",
                          {"job": j, "ops": v["ops"], "trace": v["trace"], "error": v["error"]})
    if capped:
        res.cap_hit(f"state cap {cap} reached in {len(capped)} jobs: {capped[:5]}")
    res.coverage = {
        "states": states,
        "transitions": trans,
        "traces_validated_against_impl": trans,
        "samples": [{"job": js[0][0], "ops_alphabet": "global ops + per-key ops, see harness/sut/src/c11.rs"},
                    {"example_trace": ["insert0(k1)", "insert1(k0)", "reverse", "shift_remove(k1)", "pop"]}],
        "jobs": len(js),
        "jobs_closed_to_fixed_point": len(closed),
        "per_job": per_job,
        "explanation": "BFS over the REAL containers (cloned per transition); canonical state = entries with stored hashes + "
                       "capacity + index presence; every transition is executed on the implementation in lock-step with a "
                       "Vec<(K,hash,V)> model, every query is compared in every state, and the hash-index invariant is "
                       "evaluated through the cfg(starlark_verif) hook; hence traces_validated_against_impl == transitions. "
                       "Jobs not closed are complete to their depth cap.",
        "exhaustive": not capped,
    }
    res.assumptions = ["hashbrown::HashTable is correct (trusted)", "keys outside the 24-key universe are not exercised",
                       "NO_INDEX_THRESHOLD = 16 (stable toolchain)"]
    return res


def replay(path):
    rep = json.load(open(path))["replay"]
    o = vlib.run_sut("c11", [{"id": 0, "job": rep["job"], "replay": rep["ops"]}])[0]
    print(json.dumps(o, indent=1))
    return 1 if o.get("replay_result") or "crash" in o else 0
