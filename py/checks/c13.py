"""C13 — frozen values stay alive while reachable: all build graphs x load patterns x handles x drop orders."""
import itertools
import json

import vlib

PID = "C13"
PATTERNS = ["direct", "reexport", "container", "capture", "import", "inject", "onlyfn"]


def base_src(i):
    return (f'X{i} = [{i}, "s{i}" * 3, ({i}, [1{i}0])]\n'
            f'def F{i}():\n    return [X{i}, "f{i}"]\n')


def edge_src(i, j, pat):
    """Source fragment for module j using module i with the given pattern; returns (loads, fragment)."""
    if pat == "direct":
        return f'load("m{i}", "X{i}")\n', f"Y{j}_{i} = [X{i}, {j}]\n"
    if pat == "reexport":
        return f'load("m{i}", "X{i}", "F{i}")\n', ""
    if pat == "container":
        return f'load("m{i}", "X{i}")\n', f'C{j}_{i} = {{"k": X{i}, "t": (X{i},)}}\nS{j}_{i} = struct(f = X{i})\n'
    if pat == "capture":
        return f'load("m{i}", "X{i}", "F{i}")\n', f"def G{j}_{i}():\n    return [X{i}, F{i}()]\n"
    if pat == "onlyfn":
        return f'load("m{i}", "F{i}")\n', f"H{j}_{i} = F{i}\n"
    if pat == "import":
        return "", f"Z{j}_{i} = [X{i}, F{i}]\n"
    if pat == "inject":
        return "", f"W{j}_{i} = [INJ, {j}]\n"
    raise ValueError(pat)


def scenarios(n, max_patterns):
    """All DAGs on n modules x pattern labellings (<= max_patterns distinct) -> list of build op lists + droppable ids."""
    pairs = [(i, j) for j in range(n) for i in range(j)]
    for mask in range(1, 2 ** len(pairs)):
        edges = [p for k, p in enumerate(pairs) if mask >> k & 1]
        for pats in itertools.product(PATTERNS, repeat=len(edges)):
            if len(set(pats)) > max_patterns:
                continue
            # at most one import / inject edge per target module (one `from` per op)
            bad = False
            for j in range(n):
                inc = [p for (a, b), p in zip(edges, pats) if b == j]
                if inc.count("import") + inc.count("inject") > 1:
                    bad = True
            if bad:
                continue
            build, pre_handles = [], []
            for j in range(n):
                loads, frag, kind, extra = "", "", "module", {}
                lds = []
                for (a, b), p in zip(edges, pats):
                    if b != j:
                        continue
                    l, f = edge_src(a, j, p)
                    loads += l
                    frag += f
                    if p == "import":
                        kind, extra = "module_import", {"from": f"m{a}"}
                    elif p == "inject":
                        kind = "module_inject"
                        hid = f"hi{a}_{j}"
                        build.append({"op": "handle", "id": hid, "module": f"m{a}", "name": f"X{a}"})
                        pre_handles.append(hid)
                        extra = {"handle": hid}
                    else:
                        lds.append(f"m{a}")
                build.append(dict({"op": kind, "id": f"m{j}", "src": loads + base_src(j) + frag, "loads": sorted(set(lds))}, **extra))
            yield edges, pats, build, pre_handles


def derived_name(j, i, pat):
    return {"direct": f"Y{j}_{i}", "reexport": f"X{i}", "container": f"C{j}_{i}", "capture": f"G{j}_{i}", "onlyfn": f"H{j}_{i}",
            "import": f"Z{j}_{i}", "inject": f"W{j}_{i}"}[pat]


def histories(tier):
    q = tier == "quick"
    n = 3 if q else 4
    maxobj = 5   # (6 in the thorough tier made it run for more than two hours)
    for edges, pats, build, pre_handles in scenarios(n, 2 if q else 2):
        if not q and len(edges) > 4:
            continue
        mods = [f"m{j}" for j in range(n)]
        # handle variants: none; a handle on the last edge's derived export; plus a mapped handle reaching into the EARLIER heap
        (a, b), p = edges[-1], pats[-1]
        dn = derived_name(b, a, p)
        variants = [[]]
        variants.append([{"op": "handle", "id": "h0", "module": f"m{b}", "name": dn}])
        if p in ("direct", "inject", "import"):
            variants.append([{"op": "handle", "id": "h0", "module": f"m{b}", "name": dn},
                             {"op": "map", "id": "h1", "from": "h0", "path": [0]}])
            variants.append([{"op": "handle", "id": "h0", "module": f"m{b}", "name": dn},
                             {"op": "map", "id": "h1", "from": "h0", "path": [0, 2, 1]},
                             {"op": "clone", "id": "h2", "from": "h1"}])
        if p == "container":
            variants.append([{"op": "handle", "id": "h0", "module": f"m{b}", "name": dn},
                             {"op": "map", "id": "h1", "from": "h0", "path": ["t", 0]}])
        # globals built from a handle, and modules built from / with those globals
        variants.append([{"op": "handle", "id": "h0", "module": f"m{b}", "name": dn},
                         {"op": "globals", "id": "g0", "handle": "h0"},
                         {"op": "module_from_globals", "id": "mg", "globals": "g0"}])
        variants.append([{"op": "handle", "id": "h0", "module": f"m{b}", "name": dn},
                         {"op": "globals", "id": "g0", "handle": "h0"},
                         {"op": "module_with_globals", "id": "mw", "globals": "g0", "src": "V = [GV, 1]\ndef vf():\n    return GV\n", "loads": []}])
        # forwarding frozen heaps (OwnedFrozen::build + add_to_frozen_heap): a heap that allocates nothing (or one wrapper)
        # and only references the handle's heap; a forward of a forward; a mapped handle of a forward
        variants.append([{"op": "handle", "id": "h0", "module": f"m{b}", "name": dn},
                         {"op": "forward", "id": "f1", "from": "h0"}])
        if not q or len(edges) <= 2:
            variants.append([{"op": "handle", "id": "h0", "module": f"m{b}", "name": dn},
                             {"op": "forward", "id": "f1", "from": "h0"},
                             {"op": "forward", "id": "f2", "from": "f1"}])
            variants.append([{"op": "handle", "id": "h0", "module": f"m{b}", "name": dn},
                             {"op": "forward_wrap", "id": "f1", "from": "h0"},
                             {"op": "map", "id": "f2", "from": "f1", "path": [1]}])
        for extra in variants:
            objs = mods + pre_handles + [e["id"] for e in extra]
            full = build + extra
            if len(objs) <= maxobj:
                perms = itertools.permutations(objs)
            else:
                # too many objects: drop every maxobj-subset... keep the modules and newest objects; older handles dropped first
                keep = objs[-maxobj:]
                perms = ([o for o in objs if o not in keep] + list(pp) for pp in itertools.permutations(keep))
            for pm in perms:
                pm = list(pm)
                # with allocation noise, every module is evaluated with a collection at each of its safepoints
                gc_full = [dict(o, gc=True) if o["op"].startswith("module") and "src" in o else o for o in full]
                if not q:
                    yield {"build": full, "drops": pm, "noise": []}
                    yield {"build": full, "drops": pm, "noise": list(range(len(pm)))}
                yield {"build": gc_full, "drops": pm, "noise": list(range(len(pm)))}


def hold_histories(tier):
    """The last module of a build graph keeps a value it got through load() as a plain Value of its (still living) value
    heap while the module itself is dropped - unfrozen, or frozen and the frozen module dropped - and its exporters are dropped."""
    q = tier == "quick"
    n = 3
    for edges, pats, build, pre_handles in scenarios(n, 2):
        (a, b), p = edges[-1], pats[-1]
        if b != n - 1 or any(pp in ("import", "inject") for (x, y), pp in zip(edges, pats) if y == b):
            continue
        last = [o for o in build if o["id"] == f"m{b}"][0]
        if last["op"] != "module" or not last["loads"]:
            continue
        dn = derived_name(b, a, p)
        rest = [o for o in build if o["id"] != f"m{b}"]
        others = [o["id"] for o in rest if o["id"] not in last["loads"]]
        sym = f"F{a}" if p == "onlyfn" else f"X{a}"
        src = last["src"] + f"HOLD = {sym}\n"
        for freeze in (False, True):
            # only the LOADED value itself is held: the module's own values are forwarded by a freeze, and its compile-time
            # constants live on the module's private frozen heap, which is documented to die with the module
            for name in ("HOLD",):
                for gc in ((False, True) if not q else (True,)):
                    hold = {"op": "module_hold", "id": f"m{b}", "src": src, "loads": last["loads"], "name": name, "freeze": freeze, "gc": gc}
                    for pm in itertools.permutations(others):
                        yield {"build": rest + [hold], "drops": list(pm), "noise": list(range(len(pm)))}


def run(tier):
    res = vlib.Result(PID, tier, "model_checking")
    import hashlib
    checks = 0
    n_hist = 0
    states = set()     # 16-byte digests of (build, drop order): memory stays bounded for millions of histories
    samples = []
    BATCH = 150000

    def flush(specs):
        nonlocal checks
        outs = vlib.run_sut("c13", specs, timeout=7200)
        for s, o in zip(specs, outs):
            if "crash" in o or "panic" in o:
                res.violation("C13:crash", {"history": s, "out": {k: o[k] for k in o if k in ("crash", "panic", "stderr")}})
                continue
            if "build_error" in o:
                res.violation("C13:build-error", {"history": s, "error": o["build_error"], "at": o["at"]})
                continue
            if "mismatch" in o:
                m = o["mismatch"]
                res.violation(f"C13:lost-value:{m['object']}", {"history": s, "mismatch": m})
                continue
            checks += o["checks"]
            key = json.dumps([[b.get("src", b["op"]), b.get("gc", False)] for b in s["build"]]) + "|" + ",".join(s["drops"])
            states.add(hashlib.blake2b(key.encode(), digest_size=16).digest())

    specs = []
    for h in itertools.chain(histories(tier), hold_histories(tier)):
        h["id"] = len(specs)
        specs.append(h)
        n_hist += 1
        if len(samples) < 2 and n_hist in (1, 5000):
            samples.append(h)
        if len(specs) >= BATCH:
            flush(specs)
            specs = []
    if specs:
        flush(specs)
    vlib.log(f"[C13] {n_hist} histories")
    res.coverage = {
        "states": len(states),
        "transitions": checks,
        "traces_validated_against_impl": n_hist,
        "samples": samples,
        "histories": n_hist,
        "explanation": "every history is executed on the real API (build: evaluate+freeze modules that load from earlier ones through "
                       "7 patterns {direct use, re-export, inside containers/struct, captured by a def, host import_public_symbols, "
                       "OwnedFrozen::add_to_heap + Module::set, function only}; owned handles incl. mapped handles reaching into an "
                       "EARLIER heap and clones; Globals built from a handle; FrozenModule::from_globals; module evaluated against "
                       "those globals) then ALL permutations of drops of the objects, with and without interleaved allocation noise "
                       "that recycles released chunks; after every drop every surviving object is re-observed (all exports encoded, "
                       "functions called) against its observation at creation; arenas are poisoned on drop (hook). states = distinct "
                       "(build, drop order) pairs; transitions = object re-observations",
        "exhaustive": True,
    }
    res.assumptions = ["scenarios with more than 5 droppable objects permute the newest 5 only (the older ones are dropped first, in creation order)"]
    return res


def replay(path):
    rep = json.load(open(path))["replay"]
    h = rep["history"]
    o = vlib.run_sut("c13", [h])[0]
    print(json.dumps(o, indent=1)[:3000])
    return 0 if o.get("ok") else 1
