"""C16 — runtime type checks accept exactly the values a type denotes, on every check path,
before and after freezing."""
import itertools
import json

import vlib

PID = "C16"

# ---- values: (starlark expr, python model)
class Rec:
    def __init__(self, decl, **kw):
        self.decl, self.kw = decl, kw


class En:
    def __init__(self, decl, v):
        self.decl, self.v = decl, v


class Fn:
    pass


class Ty:
    def __init__(self, name):
        self.name = name


class St:
    pass


VALUES = [
    ("None", None), ("True", True), ("False", False), ("0", 0), ("1", 1), ("-5", -5), ("1 << 70", 1 << 70), ("1.5", 1.5), ("0.0", 0.0),
    ('""', ""), ('"a"', "a"), ("[]", []), ("[1]", [1]), ("[1, 2]", [1, 2]), ('["a"]', ["a"]), ('[1, "a"]', [1, "a"]), ("[None]", [None]),
    ("[[1]]", [[1]]), ('[["a"]]', [["a"]]), ("[[]]", [[]]), ("[[1], []]", [[1], []]), ("[1.5]", [1.5]), ("[True]", [True]),
    ("()", ()), ("(1,)", (1,)), ('("a",)', ("a",)), ("(1, 2)", (1, 2)), ('(1, "a")', (1, "a")), ('("a", 1)', ("a", 1)), ("(1, 2, 3)", (1, 2, 3)),
    ('(1, "a", None)', (1, "a", None)), ("((1,),)", ((1,),)), ("([1],)", ([1],)), ("(None, None)", (None, None)), ("(1, 2, 3, 4)", (1, 2, 3, 4)),
    ("{}", {}), ("{1: 2}", {1: 2}), ('{"a": 1}', {"a": 1}), ('{1: "a"}', {1: "a"}), ('{"a": "b"}', {"a": "b"}), ('{1: 2, "a": 3}', {1: 2, "a": 3}),
    ("{1: [2]}", {1: [2]}), ('{1: ["a"]}', {1: ["a"]}), ("{(1,): 1}", {(1,): 1}), ("{1: None}", {1: None}), ("{1: {2: 3}}", {1: {2: 3}}),
    ("set()", set()), ("set([1])", {1}), ('set(["a"])', {"a"}), ('set([1, "a"])', {1, "a"}), ("set([(1,)])", {(1,)}),
    ("range(3)", range(3)), ("struct(a = 1)", St()), ("lambda: 1", Fn()), ("len", Fn()), ("f_def", Fn()), ("int", Ty("int")), ("str", Ty("str")),
    ("list", Ty("list")), ("R1", Ty("R1")), ("E1", Ty("E1")), ("partial(f_def)", Fn()),
    ('R1(a = 1, b = "x")', Rec("R1", a=1, b="x")), ('R2(a = 1, b = "x")', Rec("R2", a=1, b="x")),
    ('E1("x")', En("E1", "x")), ('E2("x")', En("E2", "x")), ('E1("y")', En("E1", "y")),
    ('[R1(a = 1, b = "x")]', [Rec("R1", a=1, b="x")]), ('[E1("x"), E1("y")]', [En("E1", "x"), En("E1", "y")]),
    ('[E1("x"), E2("x")]', [En("E1", "x"), En("E2", "x")]), ('{"k": R1(a = 2, b = "")}', {"k": Rec("R1", a=2, b="")}),
    ('(R1(a = 1, b = "x"), E1("x"))', (Rec("R1", a=1, b="x"), En("E1", "x"))),
    ("[1, 2.5]", [1, 2.5]), ("[(1, 2), (3, 4)]", [(1, 2), (3, 4)]), ('[(1, 2), (3, "a")]', [(1, 2), (3, "a")]), ("[{}, {1: 2}]", [{}, {1: 2}]),
]
PRE = ('R1 = record(a = int, b = str)\nR2 = record(a = int, b = str)\nE1 = enum("x", "y")\nE2 = enum("x", "y")\n'
       "def f_def():\n    return 1\n")

# ---- types: (starlark expr, model tuple)
BASE = [("typing.Any", ("any",)), ("typing.Never", ("never",)), ("None", ("none",)), ("bool", ("bool",)), ("int", ("int",)),
        ("float", ("float",)), ("str", ("str",)), ("list", ("list", ("any",))), ("dict", ("dict", ("any",), ("any",))),
        ("set", ("set", ("any",))), ("tuple", ("tuplevar", ("any",))), ("typing.Callable", ("callable",)),
        ("typing.Iterable", ("iterable",)), ("R1", ("rec", "R1")), ("R2", ("rec", "R2")), ("E1", ("enum", "E1")), ("E2", ("enum", "E2")),
        ("range", ("range",)), ("struct", ("struct",))]
INNER = [BASE[i] for i in (0, 1, 2, 4, 6, 7, 13, 15)]


def types(depth, inner=None):
    """All type terms up to depth."""
    if depth == 0:
        yield from BASE
        return
    subs = list(types(depth - 1)) if inner is None else inner
    yield from BASE
    yield "()", ("tuple", ())
    for e, m in subs:
        yield f"list[{e}]", ("list", m)
        yield f"set[{e}]", ("set", m)
        yield f"tuple[{e}, ...]", ("tuplevar", m)
        yield f"({e},)", ("tuple", (m,))
    for (e1, m1), (e2, m2) in itertools.product(subs, repeat=2):
        yield f"dict[{e1}, {e2}]", ("dict", m1, m2)
        yield f"({e1}, {e2})", ("tuple", (m1, m2))
        if e1 != e2:
            yield f"{e1} | {e2}", ("union", (m1, m2))
    small = subs[:7]
    for (e1, m1), (e2, m2), (e3, m3) in itertools.product(small, repeat=3):
        yield f"({e1}, {e2}, {e3})", ("tuple", (m1, m2, m3))
        if len({e1, e2, e3}) == 3:
            yield f"{e1} | {e2} | {e3}", ("union", (m1, m2, m3))


def types2():
    """Level-2 terms: unions / containers / tuples whose components are level-1 parameterised types."""
    reps = [BASE[i] for i in (0, 2, 4, 6, 7, 13)]
    l1 = []
    for e, m in reps:
        l1 += [(f"list[{e}]", ("list", m)), (f"set[{e}]", ("set", m)), (f"tuple[{e}, ...]", ("tuplevar", m)), (f"({e},)", ("tuple", (m,)))]
    for (e1, m1), (e2, m2) in itertools.product(reps[1:5], repeat=2):
        l1 += [(f"dict[{e1}, {e2}]", ("dict", m1, m2)), (f"({e1}, {e2})", ("tuple", (m1, m2)))]
    for (ea, ma) in reps:
        for (ex, mx) in l1:
            yield f"{ea} | {ex}", ("union", (ma, mx))
            if not ex.startswith("("):  # a tuple of types is a plain tuple value: it has no `|`
                yield f"{ex} | {ea}", ("union", (mx, ma))
    for (ex, mx) in l1:
        yield f"list[{ex}]", ("list", mx)
        yield f"dict[str, {ex}]", ("dict", ("str",), mx)
        yield f"({ex}, int)", ("tuple", (mx, ("int",)))
        yield f"tuple[{ex}, ...]", ("tuplevar", mx)
        yield f"None | int | {ex}", ("union", (("none",), ("int",), mx))
    for (e1, m1), (e2, m2) in itertools.product(l1[::3], repeat=2):
        if e1 != e2 and not e1.startswith("("):
            yield f"{e1} | {e2}", ("union", (m1, m2))


def types_deep():
    """Thorough tier, true depth 2: every depth-1 term over the 8 representative base types, placed in every argument position
    of every constructor (the other position, where there is one, ranging over the representatives)."""
    l1 = [(e, m) for e, m in dict(types(1, INNER)).items() if (e, m) not in BASE and e != "()"]
    for ex, mx in l1:
        yield f"list[{ex}]", ("list", mx)
        yield f"set[{ex}]", ("set", mx)
        yield f"tuple[{ex}, ...]", ("tuplevar", mx)
        yield f"({ex},)", ("tuple", (mx,))
        for ei, mi in INNER:
            yield f"dict[{ex}, {ei}]", ("dict", mx, mi)
            yield f"dict[{ei}, {ex}]", ("dict", mi, mx)
            yield f"({ex}, {ei})", ("tuple", (mx, mi))
            yield f"({ei}, {ex})", ("tuple", (mi, mx))
            yield f"{ei} | {ex}", ("union", (mi, mx))
            if not ex.startswith("("):
                yield f"{ex} | {ei}", ("union", (mx, mi))


def flatten_union(alts):
    out = []
    for a in alts:
        if a[0] == "union":
            out += flatten_union(a[1])
        else:
            out.append(a)
    return out


def denotes(t, v):
    k = t[0]
    if k == "any":
        return True
    if k == "never":
        return False
    if k == "none":
        return v is None
    if k == "bool":
        return isinstance(v, bool)
    if k == "int":
        return isinstance(v, int) and not isinstance(v, bool)
    if k == "float":
        return isinstance(v, float)
    if k == "str":
        return isinstance(v, str)
    if k == "list":
        return isinstance(v, list) and all(denotes(t[1], x) for x in v)
    if k == "set":
        return isinstance(v, (set, frozenset)) and all(denotes(t[1], x) for x in v)
    if k == "dict":
        return isinstance(v, dict) and all(denotes(t[1], a) and denotes(t[2], b) for a, b in v.items())
    if k == "tuplevar":
        return isinstance(v, tuple) and all(denotes(t[1], x) for x in v)
    if k == "tuple":
        return isinstance(v, tuple) and len(v) == len(t[1]) and all(denotes(a, x) for a, x in zip(t[1], v))
    if k == "union":
        # Ty::unions normalises: list[A] | list[B] is list[A | B], dict[K1, V1] | dict[K2, V2] is dict[K1 | K2, V1 | V2]
        # (documented as a lossy approximation in docs/types.md); all other alternatives are checked one by one
        alts = flatten_union(t[1])
        lists = [a[1] for a in alts if a[0] == "list"]
        dicts = [a for a in alts if a[0] == "dict"]
        rest = [a for a in alts if a[0] not in ("list", "dict")]
        if lists:
            rest.append(("list", ("union", tuple(lists)) if len(lists) > 1 else lists[0]))
        if dicts:
            rest.append(("dict", ("union", tuple(d[1] for d in dicts)), ("union", tuple(d[2] for d in dicts))) if len(dicts) > 1 else dicts[0])
        return any(denotes(a, v) for a in rest)
    if k == "callable":
        return isinstance(v, (Fn, Ty))
    if k == "iterable":
        return isinstance(v, (list, tuple, dict, set, frozenset, range)) or (isinstance(v, Ty) and v.name == "E1")
    if k == "rec":
        return isinstance(v, Rec) and v.decl == t[1]
    if k == "enum":
        return isinstance(v, En) and v.decl == t[1]
    if k == "range":
        return isinstance(v, range)
    if k == "struct":
        return isinstance(v, St)
    raise ValueError(t)


def run(tier):
    res = vlib.Result(PID, tier, "exploration")
    q = tier == "quick"
    tys = list(dict(types(1 if q else 2, None if q else INNER)).items()) if False else None
    seen, tys = set(), []
    for e, m in (types(1) if q else types(2, INNER)):
        if e not in seen:
            seen.add(e)
            tys.append((e, m))
    if not q:
        for e, m in types(1):
            if e not in seen:
                seen.add(e)
                tys.append((e, m))
    for e, m in types2():
        if e not in seen:
            seen.add(e)
            tys.append((e, m))
    if not q:
        for e, m in types_deep():
            if e not in seen:
                seen.add(e)
                tys.append((e, m))
    vals = "V = [\n" + "".join(f"    {e},\n" for e, _ in VALUES) + "]\n"
    specs, meta = [], []
    CH = 40
    for i in range(0, len(tys), CH):
        chunk = tys[i:i + CH]
        defs = PRE + vals
        for j, (e, m) in enumerate(chunk):
            defs += (f"T{j} = {e}\ndef p{j}(x: {e}):\n    return 1\ndef r{j}(v) -> {e}:\n    return v\n"
                     f"def a{j}(v):\n    x: {e} = v\n    return 1\ndef c{j}(q):\n    return p{j}(q)\n")
        body = ""
        for j, (e, m) in enumerate(chunk):
            body += (f"emit([isinstance(v, T{j}) for v in V])\n"
                     f"emit([isinstance(v, {e}) for v in V])\n"
                     f"emit([not fails(lambda: p{j}(v)) for v in V])\n"
                     f"emit([not fails(lambda: r{j}(v)) for v in V])\n"
                     f"emit([not fails(lambda: a{j}(v)) for v in V])\n"
                     f"emit([type_matches(T{j}, v) for v in V])\n"
                     f"emit([not fails(lambda: c{j}(v)) for v in V])\n"
                     f"def m{j}(q):\n    return p{j}(q)\nemit([not fails(lambda: m{j}(v)) for v in V])\n"
                     f"def n{j}():\n    return [not fails(lambda: p{j}(V[i])) for i in range(len(V))]\nemit(n{j}())\n")
        names = ["V", "R1", "R2", "E1", "E2", "f_def"] + [f"{p}{j}" for j in range(len(chunk)) for p in ("T", "p", "r", "a", "c")]
        ld = 'load("lib.star", ' + ", ".join(f'"{n}"' for n in names) + ")\n"
        specs.append({"steps": [defs + body]})
        meta.append(("unfrozen", chunk))
        specs.append({"libs": [["lib.star", defs]], "steps": [ld + body]})
        meta.append(("frozen", chunk))
    for i, s in enumerate(specs):
        s["id"] = i
        s["opts"] = {"dialect": "all"}
    vlib.log(f"[C16] {len(tys)} types x {len(VALUES)} values x 9 paths x 2 (frozen/unfrozen); {len(specs)} programs")
    outs = vlib.run_sut("run", specs)
    paths = ["isinstance(v, T)", "isinstance(v, <expr>)", "def p(x: T)", "def r(v) -> T", "x: T = v", "TypeCompiled::matches",
             "def p(x: T) via caller parameter (same module as p)", "def p(x: T) via caller parameter (calling module)", "def p(x: T) via indexed global"]
    NP = len(paths)
    checks = 0
    distinct = set()
    for s, (mode, chunk), o in zip(specs, meta, outs):
        if "crash" in o or "panic" in o:
            res.violation("C16:crash", {"spec_head": s["steps"][0][:500], "out": str(o)[:800]})
            continue
        st = o["steps"][0]
        liberr = o["libs"] and o["libs"][0]["err"]
        if st["err"] or liberr:
            # locate which type expression is rejected
            res.violation(f"C16:type-rejected:{mode}", {"mode": mode, "err": liberr or st["err"], "types": [e for e, _ in chunk][:5]})
            continue
        out = st["out"]
        for j, (e, m) in enumerate(chunk):
            for pi in range(NP):
                row = out[j * NP + pi][4:-1].split(",")
                for (ve, vm), got in zip(VALUES, row):
                    checks += 1
                    want = denotes(m, vm)
                    if (got == "T") != want:
                        res.violation(f"C16:{'accepts' if got == 'T' else 'rejects'}:{m[0]}:{paths[pi]}:{mode}",
                                      {"type": e, "value": ve, "path": paths[pi], "mode": mode, "got": got == "T", "denotes": want})
            distinct.add((e, out[j * NP]))
    # nominal types declared by textually identical code in DIFFERENT files (same byte offsets) are different types
    decl = PRE + 'VX = [R1(a = 1, b = "x"), R2(a = 1, b = "x"), E1("x"), E2("y"), [R1(a = 2, b = "")], {"k": E1("y")}, (R1(a = 3, b = "z"), E1("x"))]\n'
    tests_ = ["R1", "R2", "E1", "E2", "list[R1]", "dict[str, E1]", "(R1, E1)", "R1 | E1", "list[R1 | int]"]
    main = (decl + 'load("a.star", VA = "VX", AR1 = "R1", AE1 = "E1")\nload("b.star", VB = "VX")\n' +
            "".join(f"T{i} = {t}\ndef p{i}(x: {t}):\n    return 1\n" for i, t in enumerate(tests_)) +
            "ALLV = VX + VA + VB\n" +
            "".join(f"emit([isinstance(v, T{i}) for v in ALLV])\nemit([not fails(lambda: p{i}(v)) for v in ALLV])\nemit([type_matches(T{i}, v) for v in ALLV])\n"
                    for i in range(len(tests_))) +
            "emit([isinstance(v, AR1) for v in ALLV])\nemit([isinstance(v, AE1) for v in ALLV])\n")
    xo = vlib.run_sut("run", [{"id": 0, "libs": [["a.star", decl], ["b.star", decl]], "steps": [main], "opts": {"dialect": "all"}}])[0]
    if "crash" in xo or "panic" in xo or xo["steps"][0]["err"]:
        res.violation("C16:cross-file:error", {"src": main, "out": str(xo)[:600]})
    else:
        rows = xo["steps"][0]["out"]
        # model: only the 7 values of the file that declared the type can match; per-value membership as in the single-file matrix
        own = {"R1": [1, 0, 0, 0, 0, 0, 0], "R2": [0, 1, 0, 0, 0, 0, 0], "E1": [0, 0, 1, 0, 0, 0, 0], "E2": [0, 0, 0, 1, 0, 0, 0],
               "list[R1]": [0, 0, 0, 0, 1, 0, 0], "dict[str, E1]": [0, 0, 0, 0, 0, 1, 0], "(R1, E1)": [0, 0, 0, 0, 0, 0, 1],
               "R1 | E1": [1, 0, 1, 0, 0, 0, 0], "list[R1 | int]": [0, 0, 0, 0, 1, 0, 0]}
        def enc_row(bits):
            return "L#0[" + ",".join("T" if b else "F" for b in bits) + "]"
        k = 0
        for i, t in enumerate(tests_):
            want = enc_row(own[t] + [0] * 14)       # types declared in the main file: only the main file's values
            for path in ("isinstance", "parameter", "host"):
                checks += 21
                if rows[k] != want:
                    res.violation(f"C16:cross-file-identity:{path}", {"type": t, "declared_in": "main", "path": path, "got": rows[k], "expected": want,
                                                                      "values": "7 of main, 7 of a.star, 7 of b.star (identical declarations)"})
                k += 1
        for nm, t in (("AR1", "R1"), ("AE1", "E1")):
            want = enc_row([0] * 7 + own[t] + [0] * 7)  # types loaded from a.star: only a.star's values
            checks += 21
            if rows[k] != want:
                res.violation("C16:cross-file-identity:loaded-type", {"type": nm, "declared_in": "a.star", "got": rows[k], "expected": want})
            k += 1
    res.coverage = {
        "evaluations": checks,
        "distinct_nontrivial": len(distinct),
        "rule": "all type terms up to the tier depth over {Any, Never, None, bool, int, float, str, list, dict, set, tuple, "
                "Callable, Iterable, two records and two enums of equal shape, range, struct, list[T], set[T], tuple[T, ...], "
                "tuple[A], tuple[A,B], tuple[A,B,C], dict[K,V], A|B, A|B|C} x a catalogue of values (every builtin type, empty / "
                "homogeneous / heterogeneous / nested containers, record and enum instances of both declarations, functions, "
                "types) x paths {isinstance via name, isinstance via expression, parameter annotation, return annotation, "
                "annotated assignment, host TypeCompiled::matches} x {unfrozen, frozen + loaded}; oracle = denotes(T, v) "
                "transcribed from docs/types.md; distinct_nontrivial = distinct (type, acceptance vector) pairs",
        "types": len(tys), "values": len(VALUES),
        "samples": [tys[5][0], tys[len(tys) // 2][0], tys[-1][0]],
    }
    res.assumptions = ["denotes() follows docs/types.md; bool is not int; tuple without parameters means tuple[Any, ...]"]
    return res


def replay(path):
    rep = json.load(open(path))["replay"]
    src = PRE + f"T = {rep['type']}\nv = {rep['value']}\ndef p(x: {rep['type']}):\n    return 1\ndef r(v) -> {rep['type']}:\n    return v\n" \
                f"def a(v):\n    x: {rep['type']} = v\n    return 1\n" \
                "emit([isinstance(v, T), not fails(lambda: p(v)), not fails(lambda: r(v)), not fails(lambda: a(v)), type_matches(T, v)])\n"
    o = vlib.run_sut("run", [{"id": 0, "steps": [src], "opts": {"dialect": "all"}}])[0]
    print(json.dumps({"src": src, "out": o["steps"][0]["out"], "err": o["steps"][0]["err"], "model_denotes": rep.get("denotes")}, indent=1))
    want = "T" if rep.get("denotes") else "F"
    got = o["steps"][0]["out"]
    return 0 if got and all(x == want for x in got[0][4:-1].split(",")) else 1
