"""C15 — call-depth, tick and cancellation limits are exact.
Depth: 12 recursion shapes x every limit x every depth around it (reference depth read by a probe at the leaf).
Ticks: 9 loop/call structures x every tick count in a band around every budget.
Cancellation: raised at every iteration index."""
import json

import vlib

PID = "C15"

# ---- depth shapes: program text with {d}; leaf stores depth_probe() into cell[0]
SHAPES = {
    "direct": "def r(n):\n    if n == 0:\n        cell[0] = depth_probe()\n        return 0\n    return r(n - 1) + 1\nr({d})\n",
    "mutual2": "def a(n):\n    if n == 0:\n        cell[0] = depth_probe()\n        return 0\n    return b(n - 1)\ndef b(n):\n    if n == 0:\n        cell[0] = depth_probe()\n        return 0\n    return a(n - 1)\na({d})\n",
    "mutual3": "def a(n):\n    if n == 0:\n        cell[0] = depth_probe()\n        return 0\n    return b(n - 1)\ndef b(n):\n    return c(n)\ndef c(n):\n    return a(n)\na({d})\n",
    "lambda": "def leaf():\n    cell[0] = depth_probe()\n    return 0\nr = lambda n: leaf() if n == 0 else r(n - 1)\nr({d})\n",
    "compr": "def r(n):\n    if n == 0:\n        cell[0] = depth_probe()\n        return 0\n    return [r(n - 1) for _ in [0]][0]\nr({d})\n",
    "sorted_key": "def r(n):\n    if n == 0:\n        cell[0] = depth_probe()\n        return 0\n    sorted([1], key = lambda x: r(n - 1))\n    return 0\nr({d})\n",
    "map": "def r(n):\n    if n == 0:\n        cell[0] = depth_probe()\n        return 0\n    return map(lambda x: r(n - 1), [1])[0]\nr({d})\n",
    "filter": "def r(n):\n    if n == 0:\n        cell[0] = depth_probe()\n        return False\n    filter(lambda x: r(n - 1), [1])\n    return False\nr({d})\n",
    "partial": "def r(n):\n    if n == 0:\n        cell[0] = depth_probe()\n        return 0\n    return partial(r, n - 1)()\nr({d})\n",
    "struct_field": "def r(n):\n    if n == 0:\n        cell[0] = depth_probe()\n        return 0\n    return s[0].f(n - 1)\ns = [None]\ns[0] = struct(f = r)\nr({d})\n",
    "loaded": "load('lib.star', 'lr')\ndef leaf():\n    cell[0] = depth_probe()\n    return 0\nlr({d}, leaf)\n",
    "native_reentry": "def r(n):\n    if n == 0:\n        cell[0] = depth_probe()\n        return 0\n    return call_native(r, n - 1)\nr({d})\n",
}
LIB = [["lib.star", "def lr(n, leaf):\n    return leaf() if n == 0 else lr(n - 1, leaf)\n"]]
PRE = "cell = [-1]\n"
POST = "emit(cell[0])\n"
PROBE = "def p(n):\n    return 0 if n == 0 else 1 + p(n - 1)\nemit([p(3), [i for i in range(3)], depth_probe()])\n"

TICK_STRUCTS = {
    "flat": "for i in range(P):\n    if i % 64 == 0:\n        emit(i)\n",
    "nested": "for i in range(P // 10):\n    for j in range(10):\n        if j == 0 and i % 8 == 0:\n            emit(i)\n",
    "loop_of_calls": "def f(x):\n    return x + 1\nfor i in range(P // 2):\n    f(i)\n    if i % 64 == 0:\n        emit(i)\n",
    "recursion": "def r(n):\n    return 0 if n == 0 else 1 + r(n - 1)\nfor i in range(P // 25):\n    r(24)\n    if i % 8 == 0:\n        emit(i)\n",
    "compr": "x = [i for i in range(P)]\nemit(len(x))\n",
    "sorted_key": "x = sorted(range(P // 2), key = lambda v: -v)\nemit(len(x))\n",
    "loaded_loop": "load('lib.star', 'lf')\nemit(lf(P))\n",
    "map_calls": "x = map(lambda v: v, range(P // 2))\nemit(len(x))\n",
    "mixture": "def g(n):\n    return [k for k in range(n)]\nfor i in range(P // 20):\n    g(8)\n    sorted([3, 1, 2], key = lambda v: v)\n    if i % 16 == 0:\n        emit(i)\n",
    # pairs whose tick counts must coincide: the same work with the callee defined locally / loaded from a frozen module
    "calls_local": "def f1(x):\n    return x + 1\nfor i in range(P // 2):\n    f1(i)\n    if i % 64 == 0:\n        emit(i)\n",
    "calls_loaded": "load('lib.star', 'f1')\nfor i in range(P // 2):\n    f1(i)\n    if i % 64 == 0:\n        emit(i)\n",
    "rec_local": "def r1(n):\n    return 0 if n == 0 else 1 + r1(n - 1)\nfor i in range(P // 25):\n    r1(24)\nemit(r1(P % 25))\n",
    "rec_loaded": "load('lib.star', 'r1')\nfor i in range(P // 25):\n    r1(24)\nemit(r1(P % 25))\n",
    "chain_local": "def inc(x):\n    return x + 1\ndef lf2(n):\n    t = 0\n    for i in range(n):\n        t = inc(t)\n    return t\nemit(lf2(P // 2))\n",
    "chain_loaded": "load('lib.star', 'lf2')\nemit(lf2(P // 2))\n",
    "in_def": "def main():\n    t = 0\n    for i in range(P):\n        t += i\n        if i % 64 == 0:\n            emit(i)\n    return t\nemit(main())\n",
}
TICK_LIB = [["lib.star", "def lf(n):\n    t = 0\n    for i in range(n):\n        t += 1\n    return t\n"
             "def f1(x):\n    return x + 1\ndef r1(n):\n    return 0 if n == 0 else 1 + r1(n - 1)\n"
             "def inc(x):\n    return x + 1\ndef lf2(n):\n    t = 0\n    for i in range(n):\n        t = inc(t)\n    return t\n"]]
TICK_PAIRS = [("calls_local", "calls_loaded"), ("rec_local", "rec_loaded"), ("chain_local", "chain_loaded")]


def run(tier):
    res = vlib.Result(PID, tier, "fault_enumeration")
    q = tier == "quick"
    specs, meta = [], []

    def add(kind, info, spec):
        spec["id"] = len(specs)
        spec.setdefault("opts", {})["dialect"] = "all"
        specs.append(spec)
        meta.append((kind, info))

    # ------------------------------------------------------------------ depth
    limits = [1, 2, 3, 4, 5, 6, 7, 8, 50, 51] if not q else [1, 2, 3, 5, 8, 50, 51]
    dmax = 56
    for sh, tmpl in SHAPES.items():
        for d in range(0, dmax + 1):
            src = PRE + tmpl.format(d=d) + POST
            add("depth-ref", (sh, d), {"libs": LIB, "steps": [src], "opts": {"max_stack": 5000}})
            add("depth-default", (sh, d), {"libs": LIB, "steps": [src, PROBE]})
    n_ref = len(specs)
    outs = vlib.run_sut("run", specs)
    ref = {}
    for (kind, info), o in zip(meta, outs):
        if kind == "depth-ref":
            if "crash" in o or "panic" in o or o["steps"][0]["err"]:
                res.violation("C15:depth-reference-failed", {"shape": info[0], "d": info[1], "out": str(o)[:500]})
                continue
            ref[info] = int(o["steps"][0]["out"][0][1:])
    # limited runs: every limit x every depth whose reference is within limit-? .. limit+3
    specs2, meta2 = [], []
    for sh, tmpl in SHAPES.items():
        for N in limits:
            for d in range(0, dmax + 1):
                if (sh, d) not in ref:
                    continue
                if ref[(sh, d)] > N + 6 and d > 0 and ref.get((sh, d - 1), 0) > N + 6:
                    continue
                src = PRE + tmpl.format(d=d) + POST
                s = {"id": len(specs2), "libs": LIB, "steps": [src, PROBE], "opts": {"dialect": "all", "max_stack": N}}
                specs2.append(s)
                meta2.append((sh, d, N))
    outs2 = vlib.run_sut("run", specs2)
    checks = 0
    distinct = set()

    def judge_depth(sh, d, N, o, s):
        nonlocal checks
        checks += 1
        if "crash" in o or "panic" in o:
            res.violation(f"C15:depth-crash:{sh}", {"shape": sh, "d": d, "limit": N, "out": str(o)[:500], "spec": s})
            return
        st, pr = o["steps"][0], o["steps"][1]
        r = ref[(sh, d)]
        distinct.add((sh, N, r <= N))
        if r <= N:
            if st["err"] is not None or st["out"] != [f"i{r}"]:
                res.violation(f"C15:depth-spurious-failure:{sh}", {"shape": sh, "d": d, "limit": N, "reference_depth": r,
                                                                   "err": st["err"], "out": st["out"], "spec": s})
        else:
            if st["err"] is None:
                res.violation(f"C15:depth-not-enforced:{sh}", {"shape": sh, "d": d, "limit": N, "reference_depth": r, "out": st["out"], "spec": s})
            elif st["err"]["kind"] != "StackOverflow":
                res.violation(f"C15:depth-wrong-error:{sh}", {"shape": sh, "d": d, "limit": N, "err": st["err"], "spec": s})
        if st["stack_count"] != 0:
            res.violation(f"C15:stack-not-empty:{sh}", {"shape": sh, "d": d, "limit": N, "stack_count": st["stack_count"], "spec": s})
        # evaluator reusable: probe depth 3 recursion needs 4 frames (+1 native): only judged when the limit allows it
        if N >= 6 and (pr["err"] is not None or pr["out"] != ["L#0[i3,L#1[i0,i1,i2],i2]"]):
            res.violation(f"C15:not-reusable-after-depth:{sh}", {"shape": sh, "d": d, "limit": N, "probe": pr["out"], "err": pr["err"], "spec": s})

    for (sh, d, N), o, s in zip(meta2, outs2, specs2):
        judge_depth(sh, d, N, o, s)
    for (kind, info), o, s in zip(meta, outs, specs):
        if kind == "depth-default" and info in ref:
            judge_depth(info[0], info[1], 50, o, s)

    # ------------------------------------------------------------------ ticks
    PMAX = 3300 if not q else 2300
    step = 1
    tspecs, tmeta = [], []
    for name, body in TICK_STRUCTS.items():
        for p in range(0, PMAX + 1, step):
            tspecs.append({"id": len(tspecs), "libs": TICK_LIB, "steps": [f"P = {p}\n" + body], "opts": {"dialect": "all"}})
            tmeta.append((name, p))
    touts = vlib.run_sut("run", tspecs)
    T, base = {}, {}
    for (name, p), o in zip(tmeta, touts):
        if "crash" in o or "panic" in o or o["steps"][0]["err"]:
            res.violation("C15:tick-reference-failed", {"struct": name, "p": p, "out": str(o)[:400]})
            continue
        T[(name, p)] = o["steps"][0]["ticks"]
        base[(name, p)] = o["steps"][0]["out"]
    # the tick count of a piece of work must not depend on whether its callees are frozen (loaded) or not
    for a_, b_ in TICK_PAIRS:
        for p in range(0, PMAX + 1, step):
            checks += 1
            if (a_, p) in T and (b_, p) in T and T[(a_, p)] != T[(b_, p)]:
                res.violation(f"C15:tick-count-depends-on-callee:{b_}", {"p": p, "ticks_local": T[(a_, p)], "ticks_loaded": T[(b_, p)],
                                                                        "local": TICK_STRUCTS[a_], "loaded": TICK_STRUCTS[b_]})
                break
    # determinism of the count: second run of a subset
    sub = [(i, m) for i, m in enumerate(tmeta) if m[1] % 97 == 0]
    again = vlib.run_sut("run", [tspecs[i] for i, _ in sub])
    for (i, m), o in zip(sub, again):
        checks += 1
        if "steps" in o and o["steps"][0]["ticks"] != T.get(m):
            res.violation("C15:tick-count-not-deterministic", {"struct": m[0], "p": m[1], "first": T.get(m), "second": o["steps"][0]["ticks"]})
    budgets = [1, 2, 5, 999, 1000, 1001, 1500, 1999, 2000, 2001, 2500, 3000] if not q else [1, 2, 999, 1000, 1001, 2000]
    band = 1100 if not q else 40
    bspecs, bmeta = [], []
    for name, body in TICK_STRUCTS.items():
        for B in budgets:
            for p in range(0, PMAX + 1):
                t = T.get((name, p))
                if t is None:
                    continue
                near = abs(t - B) <= band or (q and (abs(t - B - 1000) <= 3 or abs(t - B + 1000) <= 3 or t % 1000 in (0, 1, 999)))
                if not near:
                    continue
                bspecs.append({"id": len(bspecs), "libs": TICK_LIB, "steps": [f"P = {p}\n" + body],
                               "opts": {"dialect": "all", "max_ticks": B}})
                bmeta.append((name, p, B))
    vlib.log(f"[C15] depth runs {len(specs) + len(specs2)}, tick reference runs {len(tspecs)}, budgeted runs {len(bspecs)}")
    bouts = vlib.run_sut("run", bspecs)
    for (name, p, B), o, s in zip(bmeta, bouts, bspecs):
        checks += 1
        if "crash" in o or "panic" in o:
            res.violation(f"C15:tick-crash:{name}", {"struct": name, "p": p, "budget": B, "out": str(o)[:400], "spec": s})
            continue
        st = o["steps"][0]
        t = T[(name, p)]
        distinct.add((name, B, t <= B))
        if t <= B:
            if st["err"] is not None or st["out"] != base[(name, p)] or st["ticks"] != t:
                res.violation(f"C15:tick-spurious-failure:{name}", {"struct": name, "p": p, "budget": B, "ticks_needed": t, "err": st["err"],
                                                                    "ticks": st["ticks"], "spec": s})
        else:
            if st["err"] is None:
                res.violation(f"C15:tick-budget-not-enforced:{name}", {"struct": name, "p": p, "budget": B, "ticks_needed": t, "spec": s})
            else:
                if "tick" not in st["err"]["msg"].lower():
                    res.violation(f"C15:tick-wrong-error:{name}", {"struct": name, "p": p, "budget": B, "err": st["err"], "spec": s})
                if st["ticks"] > B + 1000:
                    res.violation(f"C15:tick-overrun:{name}", {"struct": name, "p": p, "budget": B, "ticks_at_failure": st["ticks"], "spec": s})
                if st["out"] != base[(name, p)][:len(st["out"])]:
                    res.violation(f"C15:tick-transcript-not-prefix:{name}", {"struct": name, "p": p, "budget": B, "got": st["out"], "spec": s})
        if st["stack_count"] != 0:
            res.violation(f"C15:stack-not-empty:{name}", {"struct": name, "p": p, "budget": B, "spec": s})

    # ------------------------------------------------------------------ cancellation at every iteration index
    cspecs, cmeta = [], []
    NLOOP = 2500
    js = range(0, NLOOP) if not q else list(range(0, NLOOP, 7)) + list(range(990, 1012)) + list(range(1990, 2012)) + list(range(NLOOP - 12, NLOOP))
    for j in js:
        src = f"for i in range({NLOOP}):\n    if i == {j}:\n        cancel_now()\n    if i >= {j}:\n        emit(i)\n"
        cspecs.append({"id": len(cspecs), "steps": [src, PROBE], "opts": {"dialect": "all", "cancel": True}})
        cmeta.append(("loop", j))
        src = ("def r(n):\n    if n == 0:\n        return 0\n    return 1 + r(n - 1)\n"
               f"for i in range({NLOOP // 25}):\n    if i * 25 >= {j} and i * 25 < {j} + 25:\n        cancel_now()\n    r(24)\n    if i * 25 >= {j}:\n        emit(i)\n")
        if j % 25 == 0:
            cspecs.append({"id": len(cspecs), "steps": [src, PROBE], "opts": {"dialect": "all", "cancel": True}})
            cmeta.append(("recursion", j))
    couts = vlib.run_sut("run", cspecs)
    for (kind, j), o, s in zip(cmeta, couts, cspecs):
        checks += 1
        if "crash" in o or "panic" in o:
            res.violation("C15:cancel-crash", {"kind": kind, "at": j, "out": str(o)[:400], "spec": s})
            continue
        st = o["steps"][0]
        if st["err"] is None:
            res.violation(f"C15:cancel-ignored:{kind}", {"kind": kind, "at": j, "emits_after": len(st["out"]), "spec": s})
        elif "ancel" not in st["err"]["msg"]:
            res.violation(f"C15:cancel-wrong-error:{kind}", {"kind": kind, "at": j, "err": st["err"], "spec": s})
        else:
            limit = 1000 if kind == "loop" else 1000 // 25 + 1
            if len(st["out"]) > limit:
                res.violation(f"C15:cancel-late:{kind}", {"kind": kind, "at": j, "iterations_after_cancel": len(st["out"]), "spec": s})
        if st["stack_count"] != 0:
            res.violation("C15:stack-not-empty:cancel", {"kind": kind, "at": j, "spec": s})
    res.coverage = {
        "evaluations": checks,
        "distinct_nontrivial": len(distinct),
        "rule": "depth: 12 recursion shapes (direct, mutual 2/3, lambda, comprehension, sorted key=, map, filter, partial, struct field, "
                "loaded frozen function, native re-entry) x limits {1..8, 50 (default), 51} x every depth d in 0..56 near the limit; "
                "reference depth = call_stack_count read by a native probe at the leaf in an unlimited run; success iff reference <= "
                "limit else ErrorKind::StackOverflow; stack empty and evaluator reusable afterwards. ticks: 10 structures x every parameter p in 0..3300 (tick count T(p) measured, checked "
                "deterministic) x 12 budgets B x every p with |T - B| within the band: T <= B => identical run, T > B => tick-limit "
                "error, transcript a prefix, count at failure <= B + 1000, evaluator reusable. cancellation: flag raised at every "
                "iteration index of a 2500-iteration loop (and of a recursion loop): always ends Cancelled, within 1000 iterations. "
                "distinct_nontrivial = distinct (structure, limit, within-limit?) classes",
        "samples": [SHAPES["sorted_key"].format(d=3), TICK_STRUCTS["mixture"], "cancel at iteration 1337"],
    }
    res.assumptions = ["the check interval is 1000 ticks (INFREQUENT_INSTRUCTION_CHECK_PERIOD)", "the leaf is the deepest point of each recursion shape"]
    return res


def replay(path):
    rep = json.load(open(path))["replay"]
    if "spec" not in rep:
        print(json.dumps(rep, indent=1))
        return 1
    o = vlib.run_sut("run", [rep["spec"]])[0]
    print(json.dumps({"was": {k: v for k, v in rep.items() if k != "spec"}, "now": o}, indent=1)[:3000])
    return 1
