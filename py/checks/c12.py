"""C12 — no mutation during iteration; released afterwards. Complete cross product of
container x iterating construct x (discovered) mutator x exit x level."""
import json

import vlib

PID = "C12"

CONTAINERS = {
    "list": "[1, 2, 3]",
    "dict": "{1: 10, 2: 20, 3: 30}",
    "set": "set([1, 2, 3])",
}
ARGS = ["", "9", "1", "0", "[9]", "{9: 9}", "9, 9", "1, 9", "set([9])", "[(9, 9)]", "-1", "2"]
STMT_FORMS = ["y[0] = 9", "y[1] = 9", "y[9] = 9", "h[0] += [9]", "h[0] |= {9: 9}", "h[0] |= set([9])", "h[0] += (9,)",
              "y[0] += 1", "y[1] += 1", "h[0] -= set([1])", "h[0] &= set([1])", "h[0] ^= set([1])"]


def discover():
    """Find the mutators of each container type: (form, is_stmt) that succeed and change the un-iterated value."""
    progs, meta = [], []
    # methods via dir()
    dirs = vlib.run_sut("run", [{"id": 0, "steps": [f"emit(dir({c}))"]} for c in CONTAINERS.values()])
    for (kind, c), d in zip(CONTAINERS.items(), dirs):
        names = [n[2:-1] for n in d["steps"][0]["out"][0][4:-1].split(",") if n]
        forms = [(f"y.{m}({a})", False) for m in names for a in ARGS] + [(s, True) for s in STMT_FORMS]
        for form, is_stmt in forms:
            body = f"    {form}\n" if is_stmt else f"    return {form}\n"
            progs.append(f"x = {c}\ny = x\nh = [x]\nemit(x)\ndef m():\n{body}m()\nemit(x)\n")
            meta.append((kind, form, is_stmt))
    outs = vlib.run_sut("run", [{"id": i, "steps": [p]} for i, p in enumerate(progs)])
    muts = {k: [] for k in CONTAINERS}
    for (kind, form, is_stmt), o in zip(meta, outs):
        st = o["steps"][0]
        if st["err"] is None and len(st["out"]) == 2 and st["out"][0] != st["out"][1]:
            muts[kind].append((form, is_stmt, st["out"][1]))
    return muts


# iterating constructs: template with {cb} (callback applied per element) ; kind stmt/expr
FOR_CONSTRUCTS = {
    "for": "for i in x:\n    cb(i)\n{exit}",
    "for_nested_same": "for i in x:\n    for j in x:\n        cb(j)\n{exit2}",
    "for_in_for_other": "for k in [0]:\n    for i in x:\n        cb(i)\n{exit2}",
}
EXPR_CONSTRUCTS = {
    "listcomp": "[cb(i) for i in x]",
    "listcomp_2nd": "[cb(j) for i in [0] for j in x]",
    "listcomp_nested": "[[cb(j) for j in x] for i in x]",
    "dictcomp": "{i: cb(i) for i in x}",
    "sorted_key": "sorted(x, key = cb)",
    "min_key": "min(x, key = cb)",
    "max_key": "max(x, key = cb)",
    "map": "map(cb, x)",
    "filter": "filter(cb, x)",
    "any_comp": "any([cb(i) for i in x])",
    "all_comp": "all([cb(i) for i in x])",
    "list_call": "list([cb(i) for i in x])",
}
RELEASE_ONLY = {
    "self_extend": ("list", "x.extend(x)"), "self_update": ("dict", "x.update(x)"), "self_or": ("dict", "h[0] |= x"),
    "self_union": ("set", "x.update(x)"), "reversed": ("list", "list(reversed(x))"), "tuple": ("list", "tuple(x)"),
    "sorted": ("list", "sorted(x)"), "len": ("list", "len(x)"), "in": ("list", "1 in x"), "str": ("list", "str(x)"),
    "enumerate": ("list", "list(enumerate(x))"), "zip": ("list", "list(zip(x, x))"), "dict_keys": ("dict", "x.keys()"),
    "dict_values": ("dict", "x.values()"), "join": ("list", "','.join([str(i) for i in x])"), "any": ("list", "any(x)"),
    "slice": ("list", "x[:]"), "plus": ("list", "x + x"), "mult": ("list", "x * 2"), "cmp": ("list", "x == x"),
    "max": ("list", "max(x)"), "dict_from": ("dict", "dict(x)"), "set_from": ("set", "set(x)"),
}
STMT_EXITS = {
    "exhaust": ("", ""),
    "break": ("    break\n", "        break\n"),
    "continue": ("    continue\n", "        continue\n"),
    "return": ("    return 7\n", "        return 7\n"),
    "error": ("    fail('boom')\n", "        fail('boom')\n"),
    "deep_error": ("    d1()\n", "        d1()\n"),
}
DEEP = "def d3():\n    return [][1]\ndef d2():\n    return d3()\ndef d1():\n    return d2()\n"


def indent(s, n=1):
    return "".join("    " * n + l + "\n" for l in s.rstrip("\n").split("\n"))


def build(kind, c, form, is_stmt, construct, exit_name, in_def, cb_exit=""):
    """Return (steps, expects_error_in_step0). Observations are tagged lists: [tag, mutation_failed, container]."""
    mbody = f"    {form}\n" if is_stmt else f"    return {form}\n"
    pre = f"x = {c}\ny = x\nh = [x]\ns = struct(f = x)\ndd = {{\"k\": x}}\nt = (x,)\ndef gy():\n    return x\ndef m():\n{mbody}" + DEEP
    cb = "def cb(i):\n    emit(['in', fails(m), x])\n" + cb_exit + "    return 0\n"
    if construct in FOR_CONSTRUCTS:
        e1, e2 = STMT_EXITS[exit_name]
        if exit_name == "return" and not in_def:
            return None
        loop = FOR_CONSTRUCTS[construct].format(exit=e1, exit2=e2)
        err = exit_name in ("error", "deep_error")
    else:
        loop = "z = " + EXPR_CONSTRUCTS[construct] + "\n"
        err = bool(cb_exit)
    if in_def:
        hdr = "def run() -> int:\n" if in_def == "typed" else "def run():\n"
        body = pre + cb + hdr + indent(loop) + "    emit(['after', fails(m), x])\n    return 0\n" + "run()\n"
    else:
        body = pre + cb + loop + "emit(['after', fails(m), x])\n"
    step2 = "emit(['caller', fails(m), x])\nemit(['iter', [i for i in x] == list(x), x])\n"
    if err:
        return [body, step2], True
    return [body + step2], False


import re
TAGRE = re.compile(r'^L#0\[s"(\w+)",([TF]),(.*)\]$')


def judge(s, m, o):
    """Return (key, replay) if this run violates the property, else None."""
    kind, form, construct, ex, in_def, expect_err, after_enc = m
    if "crash" in o or "panic" in o:
        return "C12:crash", {"spec": s, "meta": list(m), "out": o}
    steps = o["steps"]
    out = [x for st in steps for x in st["out"]]
    rep = {"spec": s, "meta": list(m), "container": kind, "mutator": form, "construct": construct, "exit": ex,
           "in_def": in_def, "out": out, "errs": [st["err"] and st["err"]["msg"] for st in steps]}
    lvl = "typed-def" if in_def == "typed" else "def" if in_def else "module"
    key = f"{kind}:{form.split('(')[0]}:{construct}:{ex}:{lvl}"
    obs = []
    for x in out:
        m_ = TAGRE.match(x)
        obs.append((m_.group(1), m_.group(2) == "T",
                    re.sub(r"([#@])(\d+)", lambda g: g.group(1) + str(int(g.group(2)) - 1), m_.group(3))) if m_ else ("?", None, x))
    if construct.startswith("release:"):
        afters = [ob for ob in obs if ob[0] == "after"]
        if steps[0]["err"] is not None and not afters:
            return None  # the construct itself does not apply to this container (type error): nothing to judge
        if not afters or afters[0][1]:
            return f"C12:not-released:{key}", rep
        return None
    ins = [ob for ob in obs if ob[0] == "in"]
    if not ins:
        return f"C12:vacuous:{key}", dict(rep, what="callback never ran")
    bad = None
    for tag, failed, enc in ins:
        if not failed:
            bad = "mutation succeeded during iteration"
        elif enc != ins[0][2]:
            bad = "container changed although the mutation failed"
    if bad:
        return f"C12:during:{key}", dict(rep, what=bad)
    if bool(steps[0]["err"]) != expect_err:
        return f"C12:exit:{key}", dict(rep, what="unexpected outcome of the iterating step")
    post = [ob for ob in obs if ob[0] in ("after", "caller")]
    if not any(ob[0] == "caller" for ob in post):
        return f"C12:exit:{key}", dict(rep, what="post-loop code not reached")
    tag, failed, enc = post[0]
    if failed:
        if expect_err:
            return (f"C12:not-released-after-error:{kind}",
                    dict(rep, what=f"mutation still fails at '{tag}' after an error propagated out of the iteration"))
        return f"C12:not-released:{key}", dict(rep, what=f"mutation still fails at '{tag}' after the iteration ended")
    if enc != after_enc:
        return f"C12:not-released:{key}", dict(rep, what=f"effect after release {enc} differs from effect on a fresh container {after_enc}")
    it = [ob for ob in obs if ob[0] == "iter"]
    if not it or not it[0][1]:
        return f"C12:iteration-after:{key}", rep
    return None


def run(tier):
    res = vlib.Result(PID, tier, "exploration")
    muts = discover()
    vlib.log("[C12] discovered mutators: " + ", ".join(f"{k}:{len(v)}" for k, v in muts.items()))
    for k, v in muts.items():
        if len(v) < 5:
            raise vlib.Machinery(f"mutator discovery found only {len(v)} mutators for {k}")
    specs, meta = [], []
    q = tier == "quick"
    if not q:
        # thorough: the same mutators reaching the iterated container through other access paths (struct field, dict value,
        # tuple element, function result) instead of the alias variable
        for kind in muts:
            extra = []
            for form, is_stmt, after_enc in muts[kind]:
                if form.startswith("y.") and not is_stmt:
                    for path in ("s.f.", 'dd["k"].', "t[0].", "gy()."):
                        extra.append((path + form[2:], is_stmt, after_enc))
            muts[kind] = muts[kind] + extra
    for kind, c in CONTAINERS.items():
        for form, is_stmt, after_enc in muts[kind]:
            for in_def in (True, False, "typed"):
                for construct in FOR_CONSTRUCTS:
                    for ex in STMT_EXITS:
                        b = build(kind, c, form, is_stmt, construct, ex, in_def)
                        if b:
                            specs.append({"steps": b[0]})
                            meta.append((kind, form, construct, ex, in_def, b[1], after_enc))
                if in_def == "typed":
                    continue  # the return-type annotation only changes how statements (return) are compiled
                for construct in EXPR_CONSTRUCTS:
                    if construct == "dictcomp" and kind == "list" and False:
                        continue
                    for cb_exit in ("", "    fail('boom')\n", "    d1()\n", "    if i == 3:\n        fail('last')\n"):
                        b = build(kind, c, form, is_stmt, construct, "exhaust", in_def, cb_exit)
                        specs.append({"steps": b[0]})
                        meta.append((kind, form, construct, "cb:" + (cb_exit.strip() or "none"), in_def, b[1], after_enc))
    # release-only constructs: after them the container must be mutable (and they must not leave it locked on error)
    for name, (kind, expr) in RELEASE_ONLY.items():
        c = CONTAINERS[kind]
        for form, is_stmt, after_enc in muts[kind][: (4 if q else 100)]:
            mbody = f"    {form}\n" if is_stmt else f"    return {form}\n"
            stmt = expr if expr.startswith("h[0]") else f"z = {expr}"
            src = f"x = {c}\ny = x\nh = [x]\ndef m():\n{mbody}{stmt}\nemit(['after', fails(m), x])\n"
            specs.append({"steps": [src]})
            meta.append((kind, form, "release:" + name, "n/a", False, False, None))
    LAST = {"list": {"any": "[0, 0, 3]", "all": "[1, 2, 0]"}, "dict": {"any": "{0: 1, '': 2, 3: 3}", "all": "{1: 1, 2: 2, 0: 3}"},
            "set": {"any": "set([0, '', 3])", "all": "set([1, 2, 0])"}}
    EMPTIED = {"list": ["y = [1]\ny.pop()\n", "y = [1, 2]\ny.clear()\n", "y = []\n", "y = list()\n", "y = [1][1:]\n"],
               "dict": ["y = {}\n", "y = {1: 1}\ny.pop(1)\n", "y = dict()\n", "y = {1: 1}\ny.clear()\n"],
               "set": ["y = set()\n", "y = set([1])\ny.remove(1)\n", "y = set([1])\ny.clear()\n"]}
    EMPTY_ITER = ["for i in x:\n    pass\n", "z = [i for i in x]\n", "z = [i for j in [1] for i in x]\n", "z = {i: 1 for i in x}\n",
                  "z = sorted(x)\n", "z = any(x)\n", "z = all(x)\n", "z = list(x)\n", "z = max(x, default = 0) if False else len(x)\n",
                  "z = map(lambda i: i, x)\n", "z = filter(None, x)\n", "z = list(enumerate(x))\n", "z = list(zip(x, x))\n",
                  "def lp():\n    for i in x:\n        return 1\n    return 0\nz = lp()\n", "z = tuple(x)\n", "z = [1 for i in x if i]\n"]
    # a mutator usable on an empty container of each kind
    EMPTY_MUT = {"list": ["y.append(9)", "y.extend([9])", "y.insert(0, 9)", "h[0] += [9]"], "dict": ["y.setdefault(9)", "y.update({9: 9})", "y[9] = 9", "h[0] |= {9: 9}"],
                 "set": ["y.add(9)", "y.update([9])", "h[0] |= set([9])"]}
    for kind in CONTAINERS:
        for which, cexpr in LAST[kind].items():
            for form in EMPTY_MUT[kind]:
                is_stmt = not form.startswith("y.")
                mbody = f"    {form}\n" if is_stmt else f"    return {form}\n"
                for wrap in ("z = {w}(x)\n", "def g():\n    return {w}(x)\nz = g()\n", "z = {w}([v for v in x]) and {w}(x)\n"):
                    src = f"x = {cexpr}\ny = x\nh = [x]\ndef m():\n{mbody}" + wrap.format(w=which) + "emit(['after', fails(m), 0])\n"
                    specs.append({"steps": [src]})
                    meta.append((kind, form, "release:" + which + "_decided_by_last", "n/a", False, False, None))
        for setup in EMPTIED[kind]:
            for it in EMPTY_ITER:
                for form in EMPTY_MUT[kind]:
                    is_stmt = not form.startswith("y.")
                    mbody = f"    {form}\n" if is_stmt else f"    return {form}\n"
                    src = setup + f"x = y\nh = [x]\ndef m():\n{mbody}" + it + "emit(['after', fails(m), 0])\n"
                    specs.append({"steps": [src]})
                    meta.append((kind, form, "release:empty:" + it.split("\n")[0][:24], "n/a", False, False, None))
    for i, s in enumerate(specs):
        s["id"] = i
        s["opts"] = {"dialect": "all"}
    vlib.log(f"[C12] {len(specs)} programs")
    outs = vlib.run_sut("run", specs)
    distinct = set()
    for s, m, o in zip(specs, meta, outs):
        out = [x for st in o.get("steps", []) for x in st["out"]]
        distinct.add((m[:5], tuple(out)))
        v = judge(s, m, o)
        if v:
            res.violation(v[0], v[1])
    res.coverage = {
        "evaluations": len(specs),
        "distinct_nontrivial": len(distinct),
        "rule": "containers {list, dict, set} x mutators DISCOVERED from dir(value) x 12 argument tuples + 12 statement forms "
                "(kept iff they change an un-iterated container) x constructs {for, nested for over the same value, for inside "
                "for, 15 expression constructs incl. comprehensions (1st/2nd clause, nested), dict comprehension, sorted/min/max "
                "key=, map, filter, any/all, enumerate, zip} x exits {exhaustion, break, continue, return, error, error three "
                "frames down, error inside callback} x {inside def, module level}; plus 23 release-only constructs. "
                "distinct_nontrivial = distinct (case, transcript) pairs",
        "mutators": {k: [f for f, _, _ in v] for k, v in muts.items()},
        "samples": [specs[0]["steps"], specs[len(specs) // 2]["steps"]],
    }
    res.assumptions = ["a mutator is an operation that changes the canonical encoding of an un-iterated container"]
    return res


def replay(path):
    rep = json.load(open(path))["replay"]
    o = vlib.run_sut("run", [rep["spec"]])[0]
    v = judge(rep["spec"], tuple(rep["meta"]), o)
    print(json.dumps({"steps": rep["spec"]["steps"], "now": [x for st in o.get("steps", []) for x in st["out"]],
                      "verdict": v and [v[0], v[1].get("what")]}, indent=1))
    return 1 if v else 0
