"""C14 — determinism across processes, address layouts, hash seeds and threads: identical programs under an
enumerated finite set of configurations must give byte-identical output (canaries prove the configurations differ)."""
import hashlib
import itertools
import json
import os
import subprocess

import gen_core
import gen_opt
import vlib

PID = "C14"
SHIM_SRC = os.path.join(vlib.HARNESS, "shim", "getrandom.c")
SHIM = os.path.join(vlib.HARNESS, "target", "getrandom_shim.so")

PRE = ('R = record(alpha = int, beta = field(str, "d"), gamma = list)\nE = enum("north", "south", "east")\n'
       "def fdef(apple, banana = 2, *cherries, **dates):\n    return [apple, banana]\n"
       "S = struct(zeta = 1, alpha = 2, mid = [3], kappa = {'k': 1})\nN = namespace(f = fdef, v = 1)\n")

VALUE_PROGS = [
    "d = {}\nfor i in range(40):\n    d[(i * 7919) % 101 if i % 3 else 'k%d' % i] = i\nemit(d)\nemit(list(d.keys()))\nemit(list(d.items())[:5])\n"
    "for k in list(d.keys())[::3]:\n    d.pop(k)\nd['new'] = 1\nemit(d)\nemit(str(d))\nemit(json.encode({str(k): v for k, v in d.items()}))\n",
    "s = set()\nfor i in range(40):\n    s.add((i * 31) % 17 if i % 2 else 'e%d' % i)\nemit(s)\nemit(sorted([str(x) for x in s]))\nemit(list(s))\nemit(str(s))\n"
    "t = set(['b', 'a', 3, (1, 2)])\nemit([x for x in t])\nemit(s | t)\nemit(s & set([0, 'e3', 5]))\nemit(t - s)\n",
    "emit(dir(S))\nemit(S)\nemit(str(S))\nemit(json.encode(S))\nemit([getattr(S, n) for n in dir(S)])\nemit(struct(**{'z': 1, 'y': 2, 'x': 3}))\n",
    "emit(dir(''))\nemit(dir([]))\nemit(dir({}))\nemit(dir(set()))\nemit(dir(1))\nemit(dir(R))\nemit(dir(R(alpha = 1, gamma = [])))\nemit(dir(E))\nemit(dir(E('north')))\nemit(dir(N))\nemit(dir(json))\nemit(dir(typing))\nemit(dir(fdef))\n",
    "emit([hash(s) for s in ['', 'a', 'ab', 'abc' * 10, 'x' * 100, '\\u00e9', 'north', 'alpha']])\nemit(hash('a' + 'b') == hash('ab'))\nemit([hash(1), hash(1 << 70), hash(1.5), hash((1, 'a')), hash(True), hash(None)])\n",
    "emit([str(fdef), repr(fdef), str(len), repr(len), str(int), str(R), str(E), repr(R(alpha = 1, gamma = [2])), str(E('south')), repr(E)])\n"
    "emit([str(lambda x: x), str(partial(fdef, 1)), repr(partial(fdef, 1, banana = 3)), str(''.join), str([].append), str(range(3)), str(type(1)), str(json), str(N)])\n"
    "emit([str(typing.Any), str(typing.Callable), str(list[int]), str(int | None), str(dict[str, int])])\n",
    "emit(json.encode({'b': 1, 'a': [1, {'z': None, 'y': True}], 'c': 1.5}))\nemit(json.decode('{\"b\": 1, \"a\": {\"z\": 1, \"y\": 2}}'))\nemit(json.encode(struct(b = 1, a = 2)))\n",
    "emit(R(alpha = 1, gamma = [1]))\nemit([e for e in E])\nemit({e: e.index for e in E})\nemit(E.values())\nemit(sorted([e.value for e in E]))\n",
    "x = {(i % 5, 'k'): [i] for i in range(20)}\nemit(x)\ny = {k: v for k, v in sorted(x.items())}\nemit(y)\nemit(sorted(x.keys()))\nemit(max(x.keys()))\nemit(dict(zip(['q', 'p', 'r'], [1, 2, 3])))\n",
    "def mk(n):\n    return {('key%d' % i): i for i in range(n)}\nemit([list(mk(n).keys())[-2:] for n in [15, 16, 17, 18, 33]])\nm = mk(20)\nfor k in list(m.keys())[:10]:\n    m.pop(k)\nm['z'] = 0\nemit(m)\n",
]
ERROR_PROGS = [
    "''.stripp()\n", "[].apend(1)\n", "{}.setdefalt(1)\n", "S.zetta\n", "S.alpah\n", "R(alpha = 1, gama = [])\n", "R(alpha = 1, gamma = []).betta\n", "E('nort')\n",
    "fdef(aple = 1)\n", "fdef(1, bananna = 3, apple = 2)\n", "sorted([], revers = True)\n", "N.g\n", "json.encod(1)\n", "typing.Calable\n", "lenn([])\n",
    "def f():\n    return lenn([])\nf()\n", "x = 1\ny = xx + 1\n", "load('lib.star', 'expotr')\n", "load('lib.star', 'export', 'expart')\n", "''.format(x = 1).uper()\n",
    "def a3():\n    return [][1]\ndef a2():\n    return a3() + 1\ndef a1(x):\n    return [a2() for _ in x]\na1([1])\n",
    "def rec(n):\n    return rec(n + 1)\nrec(0)\n", "fail('custom', [1, 2], {'k': S})\n", "1 + 'a'\n", "{}['missing']\n", "{'alpha': 1, 'beta': 2}['alpa']\n",
    "def t(x: int) -> str:\n    return x\nt(1)\n", "def t(x: list[int]):\n    pass\nt([1, 'a'])\n", "x: dict[str, int] = {'a': 'b'}\n", "sorted([3, 'a', None])\n",
    "int('12z')\n", "'%d' % 'x'\n", "[1, 2, 3].index(9)\n", "range(1, 2, 0)\n", "E[7]\n", "hash([])\n", "{[]: 1}\n", "S.zeta = 5\n", "R(1)\n", "partial(fdef)(banan = 1)\n",
]
STATIC_PROGS = [
    "def f(a: int) -> str:\n    return a\ndef g(x: str):\n    return x + 1\nz: int = 'a'\nf('q')\ng(1)\nunused = [].apend\n",
    "load('a.star', 'q', 'unused1', 'unused2')\ndef h():\n    x = 1\n    return\n    y = 2\ndef h():\n    pass\nq.nope\n",
    "def f(l: list[int], d: dict[str, int]):\n    l.append('s')\n    d[1] = 1\n    return l.nope + d.nope2\nf(1, 2)\nf(d = [], l = {})\n",
    "def k(x):\n    if x:\n        return 1\ndef k2(x):\n    for x in x:\n        pass\n    x = x\ndef k3():\n    a = 1\n    b = 2\nk(1) + 'a'\n",
    "x = [1, 'a']\ny = x[0] + x[1]\nz = {1: 'a'}[2] + 1\nw = (1, 'a')[1] + 1\nv = len(1)\nu = 'a'.join(1)\nt = [i.nope for i in 'abc'.split()]\n",
    "R = record(a = int)\nr = R(a = 'x')\nr2 = R(b = 1)\nq = r.zz\nE = enum('a', 'b')\ne = E('c')\ndef f() -> R:\n    return 1\n",
]
LIB = [["lib.star", "export = 1\nexample = 2\n_private = 3\n" + "".join(f"value_{c} = {i}\n" for i, c in enumerate("abcdefgh"))]]


def tie_programs():
    """A misspelt name with k candidates at the SAME edit distance, for every kind of lookup that offers a suggestion: which
    one is suggested (and the whole error text) must not depend on hash order."""
    out = []
    for k in (2, 3, 8):
        names = [f"value_{c}" for c in "abcdefgh"[:k]]
        kw = ", ".join(f"{n} = {i}" for i, n in enumerate(names))
        asg = "".join(f"{n} = {i}\n" for i, n in enumerate(names))
        asg_in = "".join(f"    {n} = {i}\n" for i, n in enumerate(names))
        out += [
            asg + "emit(value_x)\n",
            "def f():\n" + asg_in + "    return value_x\nf()\n",
            f"def f({kw}):\n    return value_x\nf()\n",
            asg[:len(asg) // 2] + "def f():\n" + asg_in[len(asg_in) // 2:] + "    return value_x\nf()\n",
            f"def f({kw}):\n    pass\nf(value_x = 1)\n",
            f"struct({kw}).value_x\n",
            f"T = record({', '.join(n + ' = int' for n in names)})\nT({kw}).value_x\n",
            f"T = record({', '.join(n + ' = int' for n in names)})\nT(value_x = 1)\n",
            f"namespace({kw}).value_x\n",
            "{" + ", ".join(f"'{n}': 1" for n in names) + "}['value_x']\n",
            f"T = enum({', '.join(repr(n) for n in names)})\nT('value_x')\n",
            "def f():\n    return [value_x for q in [1]]\n" + asg + "f()\n",
            "def f():\n" + asg_in + "    def g():\n        return value_x\n    return g()\nf()\n",
        ]
    out += ["load('lib.star', 'value_x')\n", "load('lib.star', 'value_a', 'value_x')\n", "''.xstrip()\n", "[].xnsert(0, 1)\n", "{}.xtems()\n", "''.isxpper()\n"]
    return out


def multi_diag_modules():
    """Modules with k >= 2 static diagnostics of the same kind inside one def / at module level, and every ordered pair of kinds:
    the list of diagnostics (order included) must not depend on hash order."""
    kinds = {
        "assign": lambda i: f"v{i} = {i} + 'a{i}'",
        "call": lambda i: f"fi('s{i}')",
        "expr": lambda i: f"{i} + 'b{i}'",
        "attr": lambda i: f"w{i} = ''.nope{i}",
        "annot": lambda i: f"u{i}: int = 'c{i}'",
        "append": lambda i: f"li.append('d{i}')",
        "index": lambda i: f"x{i} = (1, 'a')[{i} + 5]",
    }
    pre = "def fi(a: int) -> int:\n    return a\n"
    out = []
    for name, mk in kinds.items():
        for k in (2, 3, 8):
            body = [mk(i) for i in range(1, k + 1)]
            out.append(pre + "def f(li: list[int]):\n" + "".join(f"    {b}\n" for b in body) + "    return 0\n")
            out.append(pre + "li = [1]\n" + "".join(f"{b}\n" for b in body))
    for (n1, m1), (n2, m2) in itertools.product(kinds.items(), repeat=2):
        body = [m1(1), m2(2), m1(3), m2(4)]
        out.append(pre + "def f(li: list[int]):\n" + "".join(f"    {b}\n" for b in body) + "    return 0\n")
    # several defs with errors, several unused loads / reassignments (lints)
    out.append(pre + "".join(f"def g{i}(a: int) -> str:\n    return a + {i}\n" for i in range(8)))
    out.append("load('a.star', " + ", ".join(f"'unused{i}'" for i in range(8)) + ")\n" + "".join(f"def d{i}():\n    x{i} = 1\n    return\n    y = 2\n" for i in range(6)))
    return out


def programs(tier):
    progs = [PRE + p for p in VALUE_PROGS] + [PRE + "emit(1)\n" + p for p in ERROR_PROGS + tie_programs()]
    # breadth: a slice of the generated families (all of them in thorough)
    fam = [d + b for _, d, b in gen_opt.g6_types()] + [d + b for _, d, b in gen_opt.g5_globals()] + [s for _, s, _ in gen_core.f9_functions()]
    g3 = [d + b for _, d, b in gen_opt.g3_raising()]
    g4 = [d + b for f, d, b in gen_opt.g4_specialised() if f == "G4.param"]
    progs += fam + (g3[::7] + g4[::3] if tier == "quick" else g3 + g4)
    if tier != "quick":
        progs += [s for _, s, _ in gen_core.f6_scoping()] + [s for _, s, _ in gen_core.f10_sizes()]
    return list(dict.fromkeys(progs))


def build_shim():
    os.makedirs(os.path.dirname(SHIM), exist_ok=True)
    p = subprocess.run(["gcc", "-shared", "-fPIC", "-O1", "-o", SHIM, SHIM_SRC], stdout=subprocess.PIPE, stderr=subprocess.STDOUT, text=True)
    if p.returncode != 0:
        raise vlib.Machinery("cannot build the getrandom shim: " + p.stdout[-300:])


def run_config(cfg, run_input, analyze_input):
    seed, aslr, prealloc, thread = cfg
    env = dict(os.environ, VERIF_HASH_SEED=str(seed), LD_PRELOAD=SHIM, VERIF_PREALLOC=str(prealloc))
    if thread != "main":
        env["VERIF_THREAD"] = thread
    pre = [] if aslr else ["setarch", "-R"]
    outs = []
    for sub, inp in (("canary", ""), ("run", run_input), ("analyze", analyze_input)):
        p = subprocess.run(pre + [vlib.SUT, sub], input=inp, stdout=subprocess.PIPE, stderr=subprocess.PIPE, text=True, env=env)
        if p.returncode != 0:
            outs.append(f"EXIT {p.returncode}: {p.stderr[-300:]}")
        else:
            outs.append(p.stdout)
    return outs


def run(tier):
    res = vlib.Result(PID, tier, "exploration")
    build_shim()
    progs = programs(tier)
    specs = [{"id": i, "libs": LIB, "steps": [p], "opts": {"dialect": "all"}} for i, p in enumerate(progs)]
    # in-process repetition: the same list twice in one process
    run_input = "".join(json.dumps(s) + "\n" for s in specs + specs)
    statics = STATIC_PROGS + multi_diag_modules() + [PRE + p for p in ERROR_PROGS[:20] + tie_programs()]
    an = [{"id": i, "src": p, "names": ["f", "x", "y", "z", "R", "S"], "eval": False} for i, p in enumerate(statics)]
    analyze_input = "".join(json.dumps(s) + "\n" for s in an + an)
    seeds = [1, 2, 3, 4, 5, 6]
    configs = list(itertools.product(seeds, [True, False], [0, 1 << 20, 64 << 20], ["main", "spawn", "spawn2"]))
    if tier == "quick":
        # every value of every dimension, pairwise-complete over (seed x thread) and (aslr x prealloc)
        configs = [c for i, c in enumerate(configs) if (c[0] - 1) % 3 == ["main", "spawn", "spawn2"].index(c[3]) or c[0] == 1]
    vlib.log(f"[C14] {len(progs)} programs + {len(statics)} static-analysis modules x {len(configs)} configurations")
    from concurrent.futures import ThreadPoolExecutor
    with ThreadPoolExecutor(max_workers=vlib.NPROC) as ex:
        results = list(ex.map(lambda c: run_config(c, run_input, analyze_input), configs))
    # canaries: the configurations must really differ in each dimension
    can = [json.loads(r[0]) if r[0].startswith("{") else None for r in results]
    if any(c is None for c in can):
        raise vlib.Machinery("canary failed: " + str([r[0] for r in results if not r[0].startswith("{")][:1]))
    orders = {tuple(c["hashmap_order"]) for c in can}
    addrs = {c["addr"] for c in can}
    threads = {c["thread"] for c in can}
    if len(orders) < len(seeds) or len(addrs) < 4 or len(threads) < 2:
        raise vlib.Machinery(f"configurations do not vary what they should: {len(orders)} hash orders, {len(addrs)} addresses, {len(threads)} threads")
    base = results[0]
    n_lines = 0
    for cfg, r in zip(configs, results):
        for which, (a, b) in (("run", (base[1], r[1])), ("analyze", (base[2], r[2]))):
            la, lb = a.split("\n"), b.split("\n")
            n_lines += len(lb)
            if a != b:
                k = next((i for i, (x, y) in enumerate(zip(la, lb)) if x != y), min(len(la), len(lb)))
                src = None
                try:
                    pid = json.loads(lb[k])["id"]
                    src = (progs if which == "run" else statics)[pid]
                except Exception:
                    pid = None
                res.violation(f"C14:{which}-differs", {"config": cfg, "base_config": configs[0], "program": src,
                                                       "base_line": la[k][:1500] if k < len(la) else None, "line": lb[k][:1500] if k < len(lb) else None})
        # in-process repetition (first half == second half, ids aside)
        for which, out, n in (("run", r[1], len(specs)), ("analyze", r[2], len(an))):
            ls = [l for l in out.split("\n") if l.strip()]
            if len(ls) == 2 * n and ls[:n] != ls[n:]:
                k = next(i for i in range(n) if ls[i] != ls[n + i])
                res.violation(f"C14:{which}-second-evaluation-differs", {"config": cfg, "first": ls[k][:1500], "second": ls[n + k][:1500]})
    res.coverage = {
        "evaluations": (len(specs) * 2 + len(an) * 2) * len(configs),
        "distinct_nontrivial": len(progs) + len(statics),
        "rule": "programs printing order- and identity-bearing observations (dict/set/struct/dir iteration after inserts and removals "
                "across the 16-entry threshold, hash(), json, str/repr of functions, natives, types, records, enums, partial, bound "
                "methods, full error texts incl. did-you-mean suggestions and 3-frame call stacks; plus generated families) and "
                "modules with >=3 static diagnostics (typechecker errors, type map, lints) - each run in one process per "
                "configuration, twice in that process; configurations = hash seed (6, via an LD_PRELOAD getrandom shim) x ASLR "
                "{on, off} x pre-allocation noise {0, 1 MiB, 64 MiB} x thread {main, spawned, spawned after another evaluation}; "
                "canaries assert that std HashMap order, allocation addresses and thread really differ; all outputs byte-identical",
        "configurations": len(configs), "distinct_hash_orders": len(orders), "distinct_addresses": len(addrs),
        "output_sha": hashlib.sha1((base[1] + base[2]).encode()).hexdigest(),
        "samples": [progs[0][-300:], ERROR_PROGS[8], STATIC_PROGS[0]],
    }
    res.assumptions = ["the seed space is not exhausted: the claim is 'all programs x these configurations' (finite stand-in for 'any process')"]
    return res


def replay(path):
    rep = json.load(open(path))["replay"]
    print(json.dumps(rep, indent=1)[:4000])
    return 1
