"""C02 — optimisation is unobservable: program x opacifying rewrites x {same module, frozen+loaded}."""
import ast
import json
import os

import gen_core
import gen_opt
import rewrite
import vlib

PID = "C02"
DUMP = open(os.environ["VERIF_DUMP"], "w") if os.environ.get("VERIF_DUMP") else None
VARIANTS = ["orig", "R0", "R1", "R2", "R3", "R4", "R5", "R6"]


def programs(tier):
    q = tier == "quick"
    yield from gen_opt.all_families(tier)
    # general-purpose families from the shared core, as body-only programs
    for fam, src, _ in gen_core.f5_control(3 if q else 4):
        yield "core." + fam, "", src
    for fam, src, _ in gen_core.f6_scoping():
        yield "core." + fam, "", src
    for fam, src, _ in gen_core.f9_functions():
        yield "core." + fam, "", src
    for fam, lit, var in gen_core.f3_builtins():
        yield "core." + fam, "", lit
    floats = ["1", "-7", "2.0", "-0.0", "0.5", "1e300", '"ab"', "[1]", "None", "True"]
    for fam, lit, var in gen_core.f1_depth1(floats):
        yield "core.F1f", "", lit
    ops = ["+", "-", "*", "/", "//", "%", "==", "<", "and", "or"]
    for fam, lit, var in gen_core.f1_depth2(["1", "2.0", "-3", '"a"', "0"], ops):
        yield "core.F1f2", "", lit
    for fam, src, _ in gen_core.f11_definite_assignment():
        yield "core." + fam, "", src
    if not q:
        # thorough: the remaining shared-core families as well
        for gen in (gen_core.f7_comprehensions(), gen_core.f7b_traced(), gen_core.f10_sizes(), gen_core.f4_histories(3),
                    gen_core.f2_slices(3, range(-3, 4)), gen_core.f3_methods(), gen_core.f5_control(5)):
            for fam, lit, var in gen:
                yield "core." + fam, "", lit
                if var is not None:
                    yield "core." + fam, "", var


def variants(defs, body):
    out = []
    try:
        names = [n for n in rewrite.module_names(ast.parse(defs)) if not n.startswith("_")] if defs.strip() else []
    except SyntaxError:
        return None
    for vi, v in enumerate(VARIANTS):
        try:
            d = defs if v == "orig" else rewrite.rewrite(defs, vi - 1)
            b = body if v == "orig" else rewrite.rewrite(body, vi - 1)
        except SyntaxError:
            return None
        out.append((v, "A", {"steps": [d + b]}))
        if names:
            ld = 'load("lib.star", ' + ", ".join(f'"{n}"' for n in names) + ")\n"
            out.append((v, "B", {"libs": [["lib.star", d]], "steps": [ld + b]}))
    return out


def observe(o):
    """Normalised observation of one run: transcript + first error (kind, message)."""
    if "crash" in o or "panic" in o:
        return ("CRASH", str(o.get("crash")), o.get("panic", ""))
    out, err = [], None
    for l in o.get("libs", []):
        out += l["out"]
        if l["err"] and err is None:
            err = l["err"]
    if err is None:
        for s in o["steps"]:
            out += s["out"]
            if s["err"]:
                err = s["err"]
                break
    e = None
    if err is not None:
        # qualified function names carry the file name, which legitimately differs between modes A and B
        e = (err["kind"], err["msg"].replace("step0.star.", "M.").replace("lib.star.", "M."))
    return (tuple(out), e)


def run(tier):
    res = vlib.Result(PID, tier, "exploration")
    progs, seen = [], set()
    for fam, d, b in programs(tier):
        if (d, b) not in seen:
            seen.add((d, b))
            progs.append((fam, d, b))
    specs, index = [], []
    skipped = 0
    import multiprocessing
    with multiprocessing.Pool(vlib.NPROC) as pool:
        all_vs = pool.starmap(variants, [(d, b) for _, d, b in progs], chunksize=200)
    for pi, (fam, d, b) in enumerate(progs):
        vs = all_vs[pi]
        if vs is None:
            skipped += 1
            continue
        for v, mode, sp in vs:
            sp["id"] = len(specs)
            sp["opts"] = {"dialect": "all"}
            specs.append(sp)
            index.append((pi, v, mode))
    vlib.log(f"[C02] {len(progs)} programs, {len(specs)} evaluations ({skipped} not python-parseable, skipped)")
    outs = vlib.run_sut("run", specs)
    by_prog = {}
    for (pi, v, mode), sp, o in zip(index, specs, outs):
        by_prog.setdefault(pi, []).append((v, mode, sp, observe(o)))
    distinct = set()
    fams = {}
    for pi, runs in by_prog.items():
        fam, d, b = progs[pi]
        fams[fam.split(".")[0]] = fams.get(fam.split(".")[0], 0) + 1
        base = runs[0][3]
        distinct.add(base)
        bad = [(v, m, sp, ob) for v, m, sp, ob in runs if ob != base]
        if any(ob[0] == "CRASH" for _, _, _, ob in runs):
            res.violation(f"C02:crash:{fam}", {"defs": d, "body": b, "runs": [(v, m, ob) for v, m, _, ob in runs if ob[0] == "CRASH"][:2]})
            continue
        if bad:
            v, m, sp, ob = bad[0]
            # classify: transcript or error
            what = "transcript" if ob[0] != base[0] else ("error-text" if (ob[1] and base[1] and ob[1][0] == base[1][0]) else "outcome")
            key = f"C02:{what}:{fam}:{v}{m}"
            rep = {"defs": d, "body": b, "family": fam, "base": {"variant": "orig", "mode": "A", "obs": base},
                   "differs": {"variant": v, "mode": m, "obs": ob, "spec": sp},
                   "all": [(v2, m2, ob2 == base) for v2, m2, _, ob2 in runs]}
            res.violation(key, rep)
            if DUMP:
                DUMP.write(json.dumps({"key": key, **rep}) + "\n")
    res.coverage = {
        "evaluations": len(specs),
        "programs": len(progs),
        "distinct_nontrivial": len(distinct),
        "rule": "every program of the optimiser-directed families (G1 inlining: callee bodies x argument shapes incl. possibly "
                "unassigned locals; G2 constant conditions x side-effect forms; G3 raising pure builtins x live/dead positions; "
                "G4 specialised instructions/methods x value catalogue as parameter/constant/global; G5 once/twice-assigned "
                "globals; G6 records/enums/annotations/f-strings) and of the shared-core families, each run as original text and "
                "under rewrites R0 (reprint) R1 literals R2 callees R3 receivers R4 dead second assignment R5 conditions R6 all, "
                "in the defining module (A) and frozen-then-load()ed (B); all observations (transcript, error kind+message) of "
                "one program must be identical; distinct_nontrivial = distinct baseline observations",
        "families": fams,
        "samples": [progs[0][1] + progs[0][2], progs[len(progs) // 3][1] + progs[len(progs) // 3][2]],
    }
    res.assumptions = ["the rewrites are semantics-preserving (opaque is a pure identity native; dead assignments are dead)",
                       "an optimisation that is wrong in the same way with and without opaque() is not visible here (C01 is)"]
    return res


def replay(path):
    rep = json.load(open(path))["replay"]
    vs = variants(rep["defs"], rep["body"])
    specs = []
    for v, m, sp in vs:
        sp["id"] = len(specs)
        sp["opts"] = {"dialect": "all"}
        specs.append(sp)
    outs = vlib.run_sut("run", specs)
    obs = [(v, m, observe(o)) for (v, m, _), o in zip(vs, outs)]
    for v, m, ob in obs:
        print(v, m, ob)
    return 0 if all(ob == obs[0][2] for _, _, ob in obs) else 1
