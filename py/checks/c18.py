"""C18 — profilers, statement hooks and the debugger observe without interfering; breakpoints stop exactly once per
execution of their statement; variables shown at a stop are the program's values."""
import itertools
import json
import re

import gen_core
import vlib

PID = "C18"
PROFILES = ["HeapAllocated", "HeapRetained", "HeapSummaryAllocated", "HeapSummaryRetained", "HeapFlameAllocated", "HeapFlameRetained",
            "Statement", "Coverage", "Bytecode", "BytecodePairs", "TimeFlame", "Typecheck", "None"]

EXTRA = [
    "def fib(n):\n    if n < 2:\n        emit(n)\n        return n\n    a = fib(n - 1)\n    b = fib(n - 2)\n    emit(a + b)\n    return a + b\nx = fib(4)\nemit(x)\n",
    "def inner(v):\n    emit(v)\n    return v * 2\ndef outer(n):\n    t = 0\n    for i in range(n):\n        t += inner(i)\n        emit(t)\n    return t\ny = outer(3)\nemit(y)\n",
    "def g(x):\n    y = [k * x for k in range(3)]\n    emit(x)\n    if x > 1:\n        emit(y[1])\n        return y\n    emit(0)\n    return []\nx = 0\nfor x in [1, 2, 3]:\n    g(x)\nemit(x)\n",
    "def boom(x):\n    emit(x)\n    if x == 2:\n        fail('two')\n    emit(x + 10)\n    return x\nx = 1\nboom(x)\nx = 2\nboom(x)\nemit(99)\n",
    "def rec(x):\n    emit(x)\n    if x == 0:\n        return 0\n    y = rec(x - 1)\n    emit(y)\n    return y + 1\nx = rec(3)\nemit(x)\n",
    "x = 5\ny = 0\nfor i in range(3):\n    y += i\n    emit(y)\nif y > 2:\n    emit(x)\nelse:\n    emit(0)\nemit(y)\n",
    "def k(x):\n    emit(x)\n    return -x\nx = sorted([3, 1, 2], key = k)\nemit(x[0])\ny = [k(v) for v in x]\nemit(y[0])\n",
    "def f(x, y = 2):\n    emit(x)\n    z = lambda q: q + y\n    w = z(x)\n    emit(w)\n    return w\nx = f(1)\ny = f(x, y = 5)\nemit(y)\n",
    # a local that shadows a module-level variable of another value: what the debugger evaluates at a stop inside f must not
    # leak into the module
    "x = 100\ny = 7\ndef f(v):\n    x = v * 2\n    emit(x)\n    y = x + 1\n    emit(y)\n    return x\nr = f(4)\nemit(x)\nemit(y)\nr = f(x)\nemit(x)\n",
]

# two-file sessions: breakpoints are set per file by separate setBreakpoints requests
LIB2 = "def lf(v):\n    emit([1002, v])\n    w = v + 1\n    emit([1004, w])\n    return w\n"
PROG2 = ("load('lib.star', 'lf')\ndef pf(v):\n    emit([3, v])\n    return lf(v)\nx = pf(1)\nemit([6, x])\n"
         "for i in range(2):\n    x = lf(x)\nemit([9, x])\n")
LIB2_LINES = [2, 4]
PROG2_LINES = [3, 6, 9]
PROG2_MODULE_LEVEL = {6, 9}


def tag_markers(src):
    """emit(E) -> emit([LINE, E]) so that hits can be attributed to lines; returns (src, marker lines, def lines)."""
    lines = src.rstrip("\n").split("\n")
    markers = []
    indef = []
    cur_def = False
    for i, l in enumerate(lines):
        if l.startswith("def "):
            cur_def = True
        elif l and not l.startswith(" "):
            cur_def = False
        m = re.match(r"^(\s*)emit\((.*)\)$", l)
        if m:
            lines[i] = f"{m.group(1)}emit([{i + 1}, {m.group(2)}])"
            markers.append(i + 1)
            indef.append(cur_def and l.startswith(" "))
    return "\n".join(lines) + "\n", markers, indef


def programs(tier):
    q = tier == "quick"
    out = list(EXTRA)
    for _, src, _ in gen_core.f5_control(3 if q else 4):
        out.append(src)
    if q:
        out = EXTRA + out[len(EXTRA)::2]
    return list(dict.fromkeys(out))


def run(tier):
    res = vlib.Result(PID, tier, "exploration")
    q = tier == "quick"
    specs, meta = [], []

    def add(pi, cfg, info=None):
        specs.append({"id": len(specs), "src": progs[pi][0], "config": cfg})
        meta.append((pi, cfg, info))

    progs = [tag_markers(p) for p in programs(tier)]
    for pi, (src, markers, indef) in enumerate(progs):
        add(pi, {"kind": "plain"})
        add(pi, {"kind": "plain", "gc": True})
        for m in PROFILES:
            add(pi, {"kind": "profile", "mode": m})
        add(pi, {"kind": "profile", "mode": "Statement", "gc": True})
        add(pi, {"kind": "hook", "record": False})
        add(pi, {"kind": "hook", "record": True})
        add(pi, {"kind": "hook", "record": True, "gc": True})
        ms = markers[:6] if q else markers[:8]
        for r in range(0, len(ms) + 1):
            for sub in itertools.combinations(ms, r):
                add(pi, {"kind": "dap", "breakpoints": list(sub), "mode": "continue", "evaluate": ["x"]}, ("bp", sub))
        add(pi, {"kind": "dap", "breakpoints": ms, "mode": "continue", "gc": True}, ("bp", tuple(ms)))
        for mode in ("step_into", "step_over", "step_out"):
            add(pi, {"kind": "dap", "breakpoints": [1], "mode": mode}, ("step", mode))
            if ms:
                add(pi, {"kind": "dap", "breakpoints": [ms[0]], "mode": mode}, ("step", mode))
        for mline in ms[:3]:
            add(pi, {"kind": "dap", "breakpoints": [[mline, "x > 1"]], "mode": "continue"}, ("cond", mline))
            add(pi, {"kind": "dap", "breakpoints": [[mline, "undefined_name_q"]], "mode": "continue"}, ("badcond", mline))
    # ---- two-file sessions: every sequence of <=3 setBreakpoints requests over {file} x {none, one line, all lines}
    menu = [("prog.star", []), ("prog.star", [PROG2_LINES[0]]), ("prog.star", PROG2_LINES),
            ("lib.star", []), ("lib.star", [LIB2_LINES[1]]), ("lib.star", LIB2_LINES)]
    two = []
    for n in (1, 2, 3):
        for seq in itertools.product(menu, repeat=n):
            two.append(seq)
    two_specs = [{"id": 0, "src": PROG2, "config": {"kind": "plain", "libs": [["lib.star", LIB2]]}}]
    for seq in two:
        two_specs.append({"id": len(two_specs), "src": PROG2,
                          "config": {"kind": "dap", "mode": "continue", "libs": [["lib.star", LIB2]], "breakpoints": [],
                                     "bp_calls": [[f, ls] for f, ls in seq]}})
    vlib.log(f"[C18] {len(progs)} programs, {len(specs)} instrumented runs, {len(two_specs) - 1} two-file sessions")
    outs = vlib.run_sut("c18", specs, timeout=3600)
    base = {}
    for (pi, cfg, info), o in zip(meta, outs):
        if cfg == {"kind": "plain"}:
            base[pi] = o
    checks = 0
    distinct = set()
    for s, (pi, cfg, info), o in zip(specs, meta, outs):
        src, markers, indef = progs[pi]
        b = base[pi]
        checks += 1
        name = cfg["kind"] + (":" + cfg.get("mode", "") if cfg.get("mode") else "")
        if "crash" in o or "panic" in o:
            res.violation(f"C18:crash:{name}", {"src": src, "config": cfg, "out": {k: o[k] for k in o if k in ("crash", "panic", "stderr")}})
            continue
        if o.get("hang"):
            res.violation(f"C18:hang:{name}", {"src": src, "config": cfg, "stops": len(o.get("stops", []))})
            continue
        if any(k in o for k in ("parse_error", "resolve_error", "set_breakpoints_error", "bad_config")):
            res.violation(f"C18:setup:{name}", {"src": src, "config": cfg, "out": o})
            continue
        # (1) non-interference
        if (o["out"], o["res"], o["err"]) != (b["out"], b["res"], b["err"]):
            res.violation(f"C18:interference:{name}", {"src": src, "config": cfg, "plain": [b["out"], b["res"], b["err"]],
                                                       "instrumented": [o["out"], o["res"], o["err"]]})
            continue
        distinct.add((pi, tuple(b["out"])))
        # per-line emit counts / values from the plain transcript
        hits = {}
        for e in b["out"]:
            m = re.match(r"^L#0\[i(\d+),(.*)\]$", e)
            if m:
                hits.setdefault(int(m.group(1)), []).append(m.group(2))
        if cfg["kind"] == "hook" and cfg.get("record"):
            cnt = {}
            for l in o["stmt_lines"]:
                cnt[l] = cnt.get(l, 0) + 1
            for l, d in zip(markers, indef):
                want = len(hits.get(l, []))
                got = cnt.get(l, 0)
                if got != want:
                    if not d and got == 2 * want:
                        res.violation("C18:module-level-statement-visited-twice:hook", {"src": src, "line": l, "executions": want, "hook_calls": got})
                    else:
                        res.violation("C18:statement-hook-count", {"src": src, "line": l, "executions": want, "hook_calls": got, "config": cfg})
        if cfg["kind"] == "dap" and info[0] == "bp":
            stops = o["stops"]
            per = {}
            for st in stops:
                per.setdefault(st["line"], []).append(st)
            if not all(o["verified"]):
                res.violation("C18:breakpoint-not-verified", {"src": src, "config": cfg, "verified": o["verified"]})
            for l in info[1]:
                d = indef[markers.index(l)]
                want = len(hits.get(l, []))
                got = len(per.get(l, []))
                if got != want:
                    if not d and got == 2 * want:
                        res.violation("C18:module-level-breakpoint-stops-twice", {"src": src, "line": l, "executions": want, "stops": got})
                    else:
                        res.violation("C18:breakpoint-hit-count", {"src": src, "line": l, "executions": want, "stops": got, "config": cfg})
                    continue
                # variables at the stop == the values the program emits on that very line (x is what the markers print)
                if d:
                    for st, val in zip(per.get(l, []), hits.get(l, [])):
                        vars_ = dict(st["vars"])
                        if re.fullmatch(r"i-?\d+", val) and "x" in vars_ and src.split("\n")[l - 1].strip() == f"emit([{l}, x])":
                            checks += 1
                            if vars_["x"] != val[1:]:
                                res.violation("C18:variables-at-stop", {"src": src, "line": l, "shown": vars_, "program_value": val})
                            if st["eval"] and st["eval"][0] is not None and st["eval"][0] != val[1:]:
                                res.violation("C18:evaluate-at-stop", {"src": src, "line": l, "evaluate_x": st["eval"][0], "program_value": val})
            extra = [l for l in per if l not in info[1]]
            if extra:
                res.violation("C18:stop-without-breakpoint", {"src": src, "config": cfg, "lines": extra})
        if cfg["kind"] == "dap" and info[0] == "cond":
            l = info[1]
            d = indef[markers.index(l)]
            src_line = src.split("\n")[l - 1].strip()
            if d and src_line == f"emit([{l}, x])":
                want = sum(1 for v in hits.get(l, []) if re.fullmatch(r"i-?\d+", v) and int(v[1:]) > 1)
                got = len([st for st in o["stops"] if st["line"] == l])
                if got != want:
                    res.violation("C18:conditional-breakpoint-count", {"src": src, "line": l, "condition": "x > 1", "expected_stops": want, "stops": got})
        if cfg["kind"] == "dap" and info[0] == "step" and cfg["mode"] == "step_into" and cfg["breakpoints"] == [1]:
            # stepping into from the first statement visits every executed statement: every marker execution is seen
            per = {}
            for st in o["stops"]:
                per[st["line"]] = per.get(st["line"], 0) + 1
            for l, d in zip(markers, indef):
                want = len(hits.get(l, []))
                got = per.get(l, 0)
                if d and got != want:
                    res.violation("C18:step-into-misses-statement", {"src": src, "line": l, "executions": want, "stops": got})
    # ---- two-file sessions
    touts = vlib.run_sut("c18", two_specs, timeout=3600)
    tb = touts[0]
    thits = {}
    for e in tb.get("out", []):
        m = re.match(r"^L#0\[i(\d+),", e)
        if m:
            thits[int(m.group(1))] = thits.get(int(m.group(1)), 0) + 1
    for s, o in zip(two_specs[1:], touts[1:]):
        checks += 1
        cfg = s["config"]
        if "crash" in o or "panic" in o or o.get("hang") or any(k in o for k in ("parse_error", "resolve_error", "set_breakpoints_error", "bad_config")):
            res.violation("C18:two-file:crash-or-hang", {"src": PROG2, "lib": LIB2, "config": cfg, "out": {k: o[k] for k in o if k != "stops"}})
            continue
        if (o["out"], o["res"], o["err"]) != (tb["out"], tb["res"], tb["err"]):
            res.violation("C18:two-file:interference", {"src": PROG2, "lib": LIB2, "config": cfg, "plain": tb["out"], "instrumented": o["out"]})
            continue
        final = {}
        for f, ls in cfg["bp_calls"]:
            final[f] = ls          # the last request for a file replaces that file's breakpoints, and only that file's
        want = {}
        for f, ls in final.items():
            for l in ls:
                key = 1000 + l if f == "lib.star" else l
                want[(f, l)] = thits.get(key, 0)
        got = {}
        for st in o["stops"]:
            k = (st["file"], st["line"])
            got[k] = got.get(k, 0) + 1
        # module-level lines may stop twice per execution: known finding C18:module-level-breakpoint-stops-twice, which the
        # single-file part reports; here either count is accepted for those lines
        def ok(k):
            w, g = want.get(k, 0), got.get(k, 0)
            return g == w or (k[0] == "prog.star" and k[1] in PROG2_MODULE_LEVEL and g == 2 * w)
        if not all(ok(k) for k in set(want) | set(got)):
            res.violation("C18:two-file:stops", {"src": PROG2, "lib": LIB2, "bp_calls": cfg["bp_calls"],
                                                  "expected_stops": [[k[0], k[1], v] for k, v in sorted(want.items()) if v],
                                                  "stops": [[k[0], k[1], v] for k, v in sorted(got.items())]})
    res.coverage = {
        "two_file_sessions": len(two_specs) - 1,
        "evaluations": len(specs) + len(two_specs),
        "distinct_nontrivial": len(distinct),
        "rule": "every control-flow skeleton program of <=3/4 statements (module level and in a def) + 8 call/recursion/closure/failure "
                "programs, one statement per line, markers emit([line, value]); configurations: plain, GC at every safepoint, each of "
                "the 13 ProfileModes, no-op and recording statement hooks, debugger with EVERY subset of the marker lines as "
                "breakpoints (continue at each stop, evaluate `x`), stepping into/over/out from the first statement and from the "
                "first marker, conditional breakpoints (true/false per hit, and a failing condition). Oracles: transcript/result/"
                "error identical to the plain run; stops at a line == executions of that line counted from the plain transcript; "
                "locals `x` shown and evaluate('x') equal the value the marker prints; no stop without a breakpoint; 10 s watchdog "
                "per session (hang = violation). Two-file sessions: a program that loads a library and calls into it, EVERY sequence of "
                "<=3 setBreakpoints requests over {prog, lib} x {none, one line, all lines}: stops per (file, line) == executions of "
                "that line under the breakpoint set that results when each request replaces exactly its own file's breakpoints. "
                "distinct_nontrivial = distinct (program, transcript) pairs",
        "programs": len(progs),
        "samples": [progs[0][0], progs[len(progs) // 2][0]],
    }
    res.assumptions = ["the DAP session is a rendezvous between two threads (the evaluation blocks while stopped), hence deterministic"]
    return res


def replay(path):
    rep = json.load(open(path))["replay"]
    cfgs = [{"kind": "plain"}] + ([rep["config"]] if "config" in rep else [{"kind": "hook", "record": True}])
    outs = vlib.run_sut("c18", [{"id": i, "src": rep["src"], "config": c} for i, c in enumerate(cfgs)])
    print(json.dumps({"src": rep["src"], "runs": outs}, indent=1)[:4000])
    return 1
