"""C06 — the parser builds the tree the grammar prescribes (vs CPython's ast on the shared grammar) and
printing round-trips."""
import itertools
import json
import multiprocessing
import os
import subprocess

import pysexpr
import vlib

PID = "C06"
DUMP = os.environ.get("VERIF_DUMP")

SEQ_TOKENS = ["a", "b", "1", "(", ")", "[", "]", ",", ":", "=", "+", "-", "not ", " in ", " if ", " else ", " for ", "lambda ", "*", "."]
BIN = ["or", "and", "==", "!=", "<", ">", "<=", ">=", "in", "not in", "|", "^", "&", "<<", ">>", "+", "-", "*", "/", "//", "%"]
UN = ["-", "+", "~", "not "]


def balanced(seq):
    st = []
    for t in seq:
        if t in "([":
            st.append(t)
        elif t in ")]":
            if not st or "([".index(st.pop()) != ")]".index(t):
                return False
    return not st


def seq_texts(first, L):
    for rest in itertools.product(SEQ_TOKENS, repeat=L - 1):
        seq = (SEQ_TOKENS[first],) + rest
        if balanced(seq):
            yield "".join(seq) + "\n"


def expr_family():
    shapes = []
    for o1, o2 in itertools.product(BIN, repeat=2):
        shapes.append(f"a {o1} b {o2} c")
    for o1, o2, o3 in itertools.product(["or", "and", "==", "<", "in", "not in", "|", "&", "<<", "+", "-", "*", "//"], repeat=3):
        shapes.append(f"a {o1} b {o2} c {o3} d")
    for u, o in itertools.product(UN, BIN):
        shapes += [f"{u}a {o} b", f"a {o} {u}b", f"{u}{u}a {o} b", f"{u}(a {o} b)", f"a {o} b if c else d", f"a if b else c {o} d",
                   f"a if b {o} c else d", f"lambda: a {o} b", f"lambda x: x {o} a if b else c", f"a {o} lambda: b",
                   f"a {o} b.c", f"a {o} b(c)", f"a {o} b[c]", f"a.b {o} c", f"a(b) {o} c", f"{u}a.b", f"{u}a(b)", f"{u}a[b]", f"a[{u}b]",
                   f"a {o} (b, c)", f"a {o} [b]", f"a, b {o} c", f"a {o} b, c"]
    for u1, u2 in itertools.product(UN, repeat=2):
        shapes += [f"{u1}{u2}a", f"{u1}a if {u2}b else c", f"{u1}lambda: {u2}a"]
    shapes += ["a if b else c if d else e", "(a if b else c) if d else e", "a if (b if c else d) else e", "lambda: lambda: a",
               "lambda x, y=1, *z, **w: x", "a if b else lambda: c", "not a if b else c", "not (a if b else c)", "a == b == c", "a < b < c",
               "a in b in c", "a not in b not in c", "a < b == c", "(a < b) < c", "a < (b < c)", "not a == b", "a == not b", "a + not b", "- not a",
               "a or not b and c", "not not a", "a if b else c, d", "a, b if c else d", "*a", "a, *b", "(a)", "((a))", "(a,)", "(a, b,)", "()",
               "[a, b,]", "[a for a in b]", "[a for a in b if c]", "[a for a in b for c in d]", "[a for a in b if c for d in e if f if g]",
               "[a for a, b in c]", "[a for (a, b) in c]", "[a for a in b, c]", "[a for a in (b, c)]", "[a if b else c for a in d]",
               "[a for a in b if c if d else e]", "[a for a in b if c else d]", "[lambda: a for a in b]", "[a for a in lambda: b]",
               "{a: b}", "{a: b, c: d,}", "{a: b for a in c}", "{a: b for a, b in c if d}", "{a}", "{a for a in b}", "{}", "{a: b if c else d}",
               "{a if b else c: d}", "{**a}", "(a for a in b)", "f(a for a in b)", "a[b]", "a[b:c]", "a[b:c:d]", "a[:]", "a[::]", "a[b:]", "a[:c]",
               "a[::d]", "a[b::d]", "a[b, c]", "a[(b, c)]", "a[b, c, d]", "a[b,]", "a[b:c, d]", "a[b if c else d]", "a[b if c else d:e]",
               "a[lambda: b]", "a[b][c]", "a[b].c", "a.b[c]", "a.b.c", "a(b)(c)", "a(b).c", "a.b(c)", "a . b", "a.1", "1.a", "1 .a", "a.b = c",
               "f()", "f(a)", "f(a,)", "f(a, b)", "f(a=b)", "f(a, b=c)", "f(a=b, c)", "f(*a)", "f(**a)", "f(*a, **b)", "f(**a, *b)", "f(a, *b)",
               "f(*a, b)", "f(a=b, *c)", "f(*a, b=c)", "f(a=b, **c)", "f(**a, b=c)", "f(*a, *b)", "f(**a, **b)", "f(a=b, a=c)", "f(a, a)",
               "f(a b)", "f(a if b else c)", "f(a=b if c else d)", "f(lambda: a)", "f(lambda: a, b)", "f(a=lambda: b, c=d)", "f((a, b))",
               "f(a, (b, c))", "f(a)(b=c)", "f(a=(b, c))", "f(1=a)", "f(a.b=c)", "f(a[b]=c)", "f(not a)", "f(-a)", "f(*-a)", "f(**-a)",
               "f(*a if b else c)", "f(a = b = c)", "f(a := b)" if False else "f(a, b, c, d)"]
    ctx = ["x = {e}", "{e}", "f(a, {e})", "f({e})", "f(k={e})", "x[{e}]", "x[{e}:{e}]", "{{k: {e}}}", "[{e}]", "[a for a in b if {e}]",
           "[a for a in {e}]", "def g(p={e}): pass", "def g():\n    return {e}", "lambda: {e}", "x if {e} else y", "({e})", "[{e} for a in b]",
           "x += {e}", "x = {e}, y", "for i in {e}: pass", "if {e}: pass", "{e} if x else y", "f(*{e})", "f(**{e})", "x = y = {e}" if False else "x.y = {e}"]
    for s in shapes:
        for c in ctx:
            yield c.format(e=s) + "\n"


def params_args_family():
    kinds = ["a", "b=1", "*c", "*", "**d", "/", "e", "f=2", "*g", "**h"]
    for n in range(0, 5):
        for combo in itertools.product(kinds, repeat=n):
            if n == 4 and len(set(combo)) < 3:
                continue
            yield "def f(" + ", ".join(combo) + "): pass\n"
            if n <= 3:
                yield "x = lambda " + ", ".join(combo) + ": 1\n"
                yield "def f(" + ", ".join(combo) + ",): pass\n"
    akinds = ["a", "k=b", "*c", "**d", "e", "j=f"]
    for n in range(0, 5):
        for combo in itertools.product(akinds, repeat=n):
            yield "f(" + ", ".join(combo) + ")\n"
            if n <= 3:
                yield "f(" + ", ".join(combo) + ",)\n"
    for ann in ["def f(a: b): pass", "def f(a: b = 1): pass", "def f(*a: b): pass", "def f(**a: b): pass", "def f() -> a: pass",
                "def f(a: b, /, c: d = 1, *, e: f) -> g: pass", "def f(a: b.c): pass", "def f(a: b | c): pass", "x: a = 1", "x: a",
                "x.y: a = 1", "x, y: a = 1", "x: a = y = 1", "def f(a: b[c]): pass"]:
        yield ann + "\n"


def assign_family():
    """Every assignment operator x every target shape (legal and illegal), alone and in a def."""
    targets = ["a", "a, b", "(a, b)", "[a, b]", "a.b", "a[0]", "a[0:1]", "(a)", "((a, b))", "a, (b, c)", "*a", "*a, b", "a()", "1", '"s"',
               "a + b", "a if b else c", "lambda: a", "[a for a in b]", "-a", "not a", "a.b.c", "a[b][c]", "(a,)", "[a]", "()", "[]", "a, b.c",
               "a[0], b", "(a, b), c", "[a, (b, c)]", "a, *b", "[*a, b]", "a.b()", "a[0]()", "(a.b)", "(a[0])", "a, 1", "a,",
               "(a), b", "a and b", "a < b", "a | b", "{a: b}", "{a}"]
    # (None / True / False are keywords in Python and ordinary predeclared identifiers in Starlark: not targets here)
    ops = ["=", "+=", "-=", "*=", "/=", "//=", "%=", "&=", "|=", "^=", "<<=", ">>="]
    for t in targets:
        for op in ops:
            yield f"{t} {op} c\n"
            yield f"def f():\n    {t} {op} c\n"
        yield f"{t} = c = d\n"
        yield f"c = {t} = d\n"
        yield f"for {t} in c: pass\n"
        yield f"x = [1 for {t} in c]\n"


def stmt_family(maxlen, maxindent):
    simple = ["a = 1", "pass", "return a", "break", "continue", "a += 1", "f()", "a, b = c", "a; b", "a;"]
    heads = ["if a:", "elif a:", "else:", "for a in b:", "def f():", "if a: pass", "for a in b: break", "def g(): return 1", "else: pass",
             "elif a: b = 1"]
    lines = simple + heads
    for n in range(1, maxlen + 1):
        for combo in itertools.product(lines, repeat=n):
            for ind in itertools.product(range(maxindent + 1), repeat=n):
                if ind[0] != 0:
                    continue
                yield "".join("    " * i + l + "\n" for i, l in zip(ind, combo))


def run_sut_parse(texts, roundtrip=False):
    data = "".join(json.dumps({"id": i, "src": t, "roundtrip": roundtrip}) + "\n" for i, t in enumerate(texts))
    p = subprocess.run([vlib.SUT, "parse"], input=data, stdout=subprocess.PIPE, stderr=subprocess.PIPE, text=True)
    outs = [json.loads(l) for l in p.stdout.split("\n") if l.strip()]
    if p.returncode != 0 or len(outs) != len(texts):
        # crash: find the culprit one by one
        outs = []
        for i, t in enumerate(texts):
            q = subprocess.run([vlib.SUT, "parse"], input=json.dumps({"id": i, "src": t, "roundtrip": roundtrip}) + "\n",
                               stdout=subprocess.PIPE, stderr=subprocess.PIPE, text=True)
            try:
                outs.append(json.loads(q.stdout.strip().split("\n")[-1]))
            except Exception:
                outs.append({"id": i, "crash": q.returncode})
    return outs


def work(job):
    kind = job[0]
    if kind == "seq":
        texts = list(seq_texts(job[1], job[2]))
    else:
        texts = job[1]
    pys = [pysexpr.py_parse(t) for t in texts]
    outs = run_sut_parse(texts, roundtrip=True)
    viol = []
    stats = {"n": len(texts), "both_accept": 0, "both_reject": 0, "py_reject_rule": 0, "trees": set(), "rt": 0}
    for t, (pk, pv), o in zip(texts, pys, outs):
        if "crash" in o or "panic" in o:
            viol.append(("crash", t, str(o)[:300], None))
            continue
        py_ok = pk == "ok"
        if pk == "reject":
            stats["py_reject_rule"] += 1
        if o["ok"] != py_ok:
            viol.append(("accept" if o["ok"] else "reject", t, f"starlark {'accepts' if o['ok'] else 'rejects: ' + o.get('err', '')}; "
                         f"reference {'accepts' if py_ok else pk + ': ' + pv}", None))
            continue
        if py_ok:
            stats["both_accept"] += 1
            stats["trees"].add(hash(pv))
            if o["sexpr"] != pv:
                viol.append(("tree", t, o["sexpr"], pv))
                continue
        else:
            stats["both_reject"] += 1
        if o["ok"]:
            stats["rt"] += 1
            rt = o.get("roundtrip", {})
            if rt.get("status") != "ok":
                viol.append(("roundtrip:" + str(rt.get("status")), t, json.dumps(rt)[:600], None))
    stats["trees"] = len(stats["trees"])
    return stats, viol[:200], len(viol)


def chunks(it, n):
    buf = []
    for x in it:
        buf.append(x)
        if len(buf) >= n:
            yield buf
            buf = []
    if buf:
        yield buf


def corpus_roundtrip():
    """Full-dialect modules for the round trip only: C05's corpus + the repository's test programs."""
    from checks import c05
    seeds = c05.corpus()
    import glob
    for f in sorted(glob.glob("/repo/starlark_syntax/testcases/parse/*.star")) + sorted(glob.glob("/repo/starlark/testcases/eval/**/*.star", recursive=True)):
        try:
            seeds.append(open(f).read())
        except Exception:
            pass
    # string / bytes literal contents: every sequence of <=2 escapes over a boundary set of code points, in both literal kinds
    import itertools
    esc = ["\\x00", "\\x01", "\\x07", "\\x09", "\\x0a", "\\x0d", "\\x0f", "\\x10", "\\x1f", "\\x20", "\\x22", "\\x27", "\\x5c",
           "\\x7e", "\\x7f", "\\0", "\\17", "\\177", "\\n", "\\t", "\\r", "\\\\", "\\'", '\\"', "a", "0", "{", "}", "%"]
    esc_str = esc + ["\\x80", "\\xff", "\\u00e9", "\\u0100", "\\uffff", "\\U00010000", "\\U0001F600", "\u00e9", "\U0001F600"]
    for n in (1, 2):
        for combo in itertools.product(esc, repeat=n):
            seeds.append('x = b"' + "".join(combo) + '"\n')
        for combo in itertools.product(esc_str, repeat=n):
            seeds.append('x = "' + "".join(combo) + '"\n')
    lit_only = set(seeds[-(len(esc) + len(esc) ** 2 + len(esc_str) + len(esc_str) ** 2):])
    out = []
    for s in seeds:
        out.append(s)
        if s in lit_only:
            continue
        toks = c05.tokenize(s)
        if len(toks) <= 60:
            for e in c05.edits1(toks, c05.T2[:20]):
                out.append("".join(e))
    return list(dict.fromkeys(out))


def run(tier):
    res = vlib.Result(PID, tier, "exploration")
    q = tier == "quick"
    jobs = []
    for L in range(1, (4 if q else 6) + 1):
        for f in range(len(SEQ_TOKENS)):
            jobs.append(("seq", f, L))
    for fam, gen in (("expr", expr_family()), ("params", params_args_family()), ("stmts", stmt_family(3 if q else 4, 2)), ("assign", assign_family())):
        for c in chunks(gen, 20000):
            jobs.append(("list:" + fam, c))
    with multiprocessing.Pool(vlib.NPROC) as pool:
        results = pool.map(work, jobs, chunksize=1)
    tot = {"n": 0, "both_accept": 0, "both_reject": 0, "py_reject_rule": 0, "trees": 0, "rt": 0}
    dump = open(DUMP, "w") if DUMP else None
    for job, (st, viol, nviol) in zip(jobs, results):
        for k in tot:
            tot[k] += st[k]
        fam = job[0]
        for kind, text, a, b in viol:
            res.violation(f"C06:{kind}:{fam}", {"src": text, "starlark": a, "reference": b})
            if dump:
                dump.write(json.dumps({"kind": kind, "fam": fam, "src": text, "a": a, "b": b}) + "\n")
    # part 2: round trip on full-dialect corpus
    texts = corpus_roundtrip()
    n_rt = 0
    with multiprocessing.Pool(vlib.NPROC) as pool:
        outs = pool.starmap(run_sut_parse, [(c, True) for c in chunks(texts, 3000)])
    flat = [o for c in outs for o in c]
    for t, o in zip(texts, flat):
        if "crash" in o or "panic" in o:
            res.violation("C06:roundtrip-crash", {"src": t, "out": str(o)[:300]})
        elif o["ok"]:
            n_rt += 1
            rt = o.get("roundtrip", {})
            if rt.get("status") != "ok":
                res.violation(f"C06:roundtrip:{rt.get('status')}:corpus", {"src": t, "detail": rt})
    res.coverage = {
        "evaluations": tot["n"] + len(texts),
        "distinct_nontrivial": tot["trees"],
        "rule": "part 1 (vs CPython ast + compile, with the specified Starlark deviations applied as rejections): ALL bracket-balanced "
                f"token sequences of length <= {4 if q else 6} over a 20-token alphabet; every ordered pair (and triples of 13) of the 21 "
                "binary operators, unary x binary, ternary, lambda, comprehension and call shapes, each in 25 syntactic contexts; "
                "ALL parameter lists and argument lists of length <= 4 over all kinds in every order (legal and illegal), annotations; "
                "ALL statement-line sequences of length <= 3/4 over 20 line forms x indentation 0..2. Agreement on accept/reject and on "
                "the tree. part 2: print(parse(x)) parses to the same tree and is a fixed point, for every accepted input of part 1 "
                "and a full-dialect corpus (C05 corpus + repository test programs + their 1-token edits). distinct_nontrivial = "
                "sum over jobs of distinct accepted trees",
        "both_accept": tot["both_accept"], "both_reject": tot["both_reject"], "rejected_by_deviation_rule": tot["py_reject_rule"],
        "roundtrips": tot["rt"] + n_rt,
        "samples": ["a if b else c if d else e\n", "f(a=b, *c)\n", "def f(a, /, b=1, *, e): pass\n"],
    }
    res.assumptions = ["CPython 3.11's grammar is the reference on the shared token alphabet; the deviation rules in py/pysexpr.py "
                       "(chained comparison, chained assignment, set/generator displays, **, for-else, argument order, ...) encode the Starlark spec"]
    return res


def replay(path):
    rep = json.load(open(path))["replay"]
    src = rep["src"]
    o = run_sut_parse([src], True)[0]
    p = pysexpr.py_parse(src)
    print(json.dumps({"src": src, "starlark": o, "reference": p}, indent=1))
    ok = o.get("ok") == (p[0] == "ok") and (not o.get("ok") or (o["sexpr"] == p[1] and o["roundtrip"]["status"] == "ok"))
    return 0 if ok else 1
