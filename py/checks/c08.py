"""C08 — argument binding: the finite space of signatures x call shapes, every call path,
against CPython performing the same call."""
import itertools
import json
import os
import subprocess
import sys
from concurrent.futures import ThreadPoolExecutor

import vlib

PID = "C08"


def signatures(max_pos, max_kw, illegal=True):
    for npos in range(max_pos + 1):
        for ndef in range(npos + 1):
            for slash in range(npos + 1):
                for star in ("", "*", "*args"):
                    for nkw in range(max_kw + 1):
                        if star == "" and nkw > 0:
                            continue
                        for kwdef in itertools.product((False, True), repeat=nkw):
                            for kwargs in (False, True):
                                ps, names = [], []
                                for i in range(npos):
                                    d = i >= npos - ndef
                                    ps.append(f"p{i}=10{i}" if d else f"p{i}")
                                    names.append(f"p{i}")
                                    if slash and i == slash - 1:
                                        ps.append("/")
                                if star:
                                    ps.append(star)
                                    if star == "*args":
                                        names.append("args")
                                for j in range(nkw):
                                    ps.append(f"k{j}=20{j}" if kwdef[j] else f"k{j}")
                                    names.append(f"k{j}")
                                if kwargs:
                                    ps.append("**kw")
                                    names.append("kw")
                                yield ", ".join(ps), names
    if illegal:
        for ps in ["p0=1, p1", "*, **kw", "*", "p0, /, /", "/, p0", "*args, *b", "**kw, p0", "**kw, *args", "p0, p0",
                   "*args, /", "p0, *, /", "**kw, **kw2", "p0=1, /, p1", "*, k0, *args", "p0, *args, k0, **kw, k1"]:
            yield ps, []


def calls(max_pos, named_names, max_named):
    seqs = [None, "[]", "[7]", "[7, 8]"]
    maps = [None, "{}", '{"p1": 9}', '{"k0": 9}', '{"yy": 9}', '{"p1": 9, "k0": 8}', "{1: 9}"]
    for npos in range(max_pos + 1):
        for nn in range(max_named + 1):
            for named in itertools.combinations(named_names, nn):
                for seq in seqs:
                    for mp in maps:
                        parts = [str(i + 1) for i in range(npos)]
                        parts += [f"{n}=5{i}" for i, n in enumerate(named)]
                        if seq is not None:
                            parts.append("*" + seq)
                        if mp is not None:
                            parts.append("**" + mp)
                        yield ", ".join(parts), (npos, named, seq, mp)


# callee bodies: the default returns every bound parameter; the others are shapes the optimiser special-cases (type-is
# shortcut, constant / identity inlining) - binding and rejection must not depend on the body
BODIES = {"tuple": None, "typeis": "type(p0) == type(1)", "const": "7", "ident": "p0", "call": "len([p0])"}


def defsrc(params, names, fname="f", body="tuple"):
    if BODIES.get(body) is None:
        return f"def {fname}({params}):\n    return [{', '.join(names)}]\n"
    return f"def {fname}({params}):\n    return {BODIES[body]}\n"


def oracle(items):
    """items: list of {"defs","calls"} -> list of results, in parallel processes."""
    def shard(chunk):
        data = "".join(json.dumps(x) + "\n" for x in chunk)
        p = subprocess.run([sys.executable, os.path.join(vlib.ROOT, "py", "oracle_calls.py")], input=data,
                           stdout=subprocess.PIPE, stderr=subprocess.PIPE, text=True, cwd=os.path.join(vlib.ROOT, "py"))
        if p.returncode != 0:
            raise vlib.Machinery("calls oracle failed: " + p.stderr[-500:])
        return [json.loads(l) for l in p.stdout.split("\n") if l.strip()]
    n = max(1, (len(items) + 63) // 64)
    chunks = [items[i:i + n] for i in range(0, len(items), n)]
    with ThreadPoolExecutor(max_workers=vlib.NPROC) as ex:
        return [o for r in ex.map(shard, chunks) for o in r]


def run(tier):
    res = vlib.Result(PID, tier, "exploration")
    q = tier == "quick"
    sigs = [(p, n, "tuple") for p, n in signatures(2 if q else 3, 1 if q else 2)]
    # the special-cased bodies, for every signature whose first parameter is p0 (quick: one positional parameter at most)
    for p, n in signatures(1 if q else 2, 1 if q else 2, illegal=False):
        if n and n[0] == "p0":
            sigs += [(p, n, b) for b in BODIES if b != "tuple"]
    cls = list(calls(3 if q else 4, ["p0", "p1", "k0", "zz"] if q else ["p0", "p1", "p2", "k0", "k1", "zz"], 2 if q else 2))
    vlib.log(f"[C08] {len(sigs)} signatures x {len(cls)} calls")
    call_texts = [c for c, _ in cls]
    orc = oracle([{"defs": defsrc(p, n, body=b), "calls": [f"f({c})" for c in call_texts]} for p, n, b in sigs])
    specs, meta = [], []
    n_def_err = n_ok = n_fail = 0
    CH = 60

    def host_spec(d, shape):
        return {"id": 0, "steps": [d], "opts": {"call": {
            "fn": "f", "pos": list(range(1, shape[0] + 1)), "named": [[n, 50 + i] for i, n in enumerate(shape[1])]}}}

    n_calls = 0
    stats = {"def_err": 0, "ok": 0, "fail": 0, "calls": 0, "programs": 0}
    distinct = set()
    samples = []

    def build(params, names, body, o, specs, meta):
        nonlocal n_def_err, n_ok, n_fail
        d = defsrc(params, names, body=body)
        params = params if body == "tuple" else f"{params}  [body: return {BODIES[body]}]"
        if o.get("def_error"):
            n_def_err += 1
            specs.append({"steps": [d + "emit(1)\n"]})
            meta.append(("def-reject", params, None, None))
            return
        if body == "tuple":
            # host API only (the surface syntax cannot even write it): a repeated argument name, adjacent or not, must be rejected
            for dup in (("p0", "p0"), ("p0", "k0", "p0"), ("zz", "p0", "zz"), ("k0", "zz", "p1", "k0"), ("zz", "yy", "zz"), ("p1", "p0", "k0", "p1")):
                specs.append(host_spec(d, (0, dup, None, None)))
                meta.append(("fail:host", params, "host eval_function with named arguments " + repr(dup), None))
        lib = [["lib.star", d]]
        oks = [(c, sh, e) for (c, sh), e in zip(cls, o["res"]) if e is not None]
        bad = [(c, sh) for (c, sh), e in zip(cls, o["res"]) if e is None]
        n_ok += len(oks)
        n_fail += len(bad)
        for i in range(0, len(oks), CH):
            chunk = oks[i:i + CH]
            src = d + "g = opaque(f)\ns = struct(m = f)\n"
            exp, calls_ = [], []
            for j, (c, sh, e) in enumerate(chunk):
                src += f"def c{j}():\n    return f({c})\ndef d{j}(h):\n    return h({c})\n"
            for j, (c, sh, e) in enumerate(chunk):
                src += f"emit(f({c}))\nemit(g({c}))\nemit(s.m({c}))\nemit(c{j}())\nemit(d{j}(f))\n"
                exp += [e] * 5
                calls_ += [(c, pth) for pth in ("direct", "var", "method", "in_def", "in_def_var")]
            specs.append({"steps": [src]})
            meta.append(("ok", params, calls_, exp))
            src = 'load("lib.star", "f")\n'
            exp, calls_ = [], []
            for j, (c, sh, e) in enumerate(chunk):
                src += f"def c{j}():\n    return f({c})\n"
            for j, (c, sh, e) in enumerate(chunk):
                src += f"emit(f({c}))\nemit(c{j}())\n"
                exp += [e] * 2
                calls_ += [(c, "loaded"), (c, "loaded_in_def")]
            specs.append({"libs": lib, "steps": [src]})
            meta.append(("ok", params, calls_, exp))
        for c, sh, e in oks:
            if sh[2] is None and sh[3] is None:
                specs.append(host_spec(d, sh))
                meta.append(("ok-host", params, c, e))
        for i in range(0, len(bad), CH * 3):
            chunk = bad[i:i + CH * 3]
            for pth, pre, fn in (("lambda", d, "f"), ("lambda_var", d + "g = opaque(f)\n", "g"),
                                 ("lambda_loaded", 'load("lib.star", "f")\n', "f")):
                src = pre + "".join(f"emit(fails(lambda: {fn}({c})))\n" for c, sh in chunk)
                specs.append({"libs": lib, "steps": [src]})
                meta.append(("bad-batch", params, [(c, pth) for c, sh in chunk], ["T"] * len(chunk)))
        for c, sh in bad:
            simple = sh[2] is None and sh[3] is None
            if simple:
                specs.append(host_spec(d, sh))
                meta.append(("fail:host", params, c, None))
            if not q or simple:
                for pth, src in (("direct", d + f"emit(f({c}))\n"), ("method", d + f"s = struct(m = f)\nemit(s.m({c}))\n"),
                                 ("in_def", d + f"def caller():\n    return f({c})\nemit(caller())\n")):
                    specs.append({"steps": [src]})
                    meta.append(("fail:" + pth, params, c, None))
                specs.append({"libs": lib, "steps": [f'load("lib.star", "f")\nemit(f({c}))\n']})
                meta.append(("fail:loaded", params, c, None))

    def judge_outs(specs, meta, outs):
        nonlocal n_calls
        for s_, (kind, params, ctext, exp), o in zip(specs, meta, outs):
            if "crash" in o or "panic" in o:
                res.violation("C08:crash", {"spec": s_, "out": o})
                continue
            steps = o["steps"]
            if kind == "def-reject":
                if steps[0]["err"] is None:
                    res.violation("C08:signature-accepted", {"spec": s_, "params": params, "note": "CPython rejects this parameter list"})
            elif kind in ("ok", "bad-batch"):
                got = steps[0]["out"]
                n_calls += len(exp)
                if o["libs"] and o["libs"][0]["err"]:
                    res.violation("C08:signature-rejected", {"spec": s_, "params": params, "err": o["libs"][0]["err"]})
                elif got != exp or steps[0]["err"] is not None:
                    k = next((i for i, (a, b) in enumerate(zip(got, exp)) if a != b), min(len(got), len(exp)))
                    c, pth = ctext[min(k, len(ctext) - 1)]
                    what = "wrong-binding" if kind == "ok" else "accepted-ill-formed"
                    if steps[0]["err"] is not None and k >= len(got):
                        what = "rejected-well-formed" if kind == "ok" else "batch-error"
                    res.violation(f"C08:{what}:{pth}", {"spec": s_, "params": params, "call": c, "path": pth,
                                                      "expected": exp[k] if k < len(exp) else None,
                                                      "got": got[k] if k < len(got) else None, "err": steps[0]["err"]})
                elif kind == "ok":
                    for (c, pth), e in zip(ctext, exp):
                        distinct.add((params, e))
            elif kind == "ok-host":
                n_calls += 1
                st = steps[-1]
                if st["res"] != exp:
                    res.violation("C08:wrong-binding:host", {"spec": s_, "params": params, "call": ctext, "expected": exp,
                                                             "got": st["res"], "err": st["err"]})
            elif kind == "fail:host":
                n_calls += 1
                st = steps[-1]
                if st["err"] is None:
                    res.violation("C08:accepted-ill-formed:host", {"spec": s_, "params": params, "call": ctext, "got": st["res"]})
            else:
                n_calls += 1
                if steps[0]["err"] is None or steps[0]["out"]:
                    res.violation(f"C08:accepted-ill-formed:{kind[5:]}", {"spec": s_, "params": params, "call": ctext,
                                                                         "got": steps[0]["out"]})


    def judge(specs, meta):
        for i, s_ in enumerate(specs):
            s_["id"] = i
            s_.setdefault("opts", {})["dialect"] = "all"
        outs = vlib.run_sut("run", specs)
        stats["programs"] += len(specs)
        if len(samples) < 2 and len(specs) > 1:
            samples.append(specs[1]["steps"][0])
        judge_outs(specs, meta, outs)

    B = 10 if not q else len(sigs)
    for i in range(0, len(sigs), B):
        specs, meta = [], []
        for (params, names, body), o in zip(sigs[i:i + B], orc[i:i + B]):
            build(params, names, body, o, specs, meta)
        judge(specs, meta)
    vlib.log(f"[C08] {stats['programs']} programs ({n_ok} well-formed calls, {n_fail} ill-formed, {n_def_err} rejected signatures)")
    res.coverage = {
        "evaluations": n_calls,
        "programs": stats["programs"],
        "distinct_nontrivial": len(distinct),
        "rule": "all parameter lists (positional-only '/', positional-or-keyword, defaults, *args, bare *, keyword-only "
                "with/without default, **kwargs) up to the tier bound x all call shapes (k positional, named subsets, *seq of "
                "length 0..2, **map incl. overlapping / unknown / non-string keys); each through direct, via-variable, "
                "struct-field, inside-def (inlinable), callee-as-parameter, frozen-and-loaded and host eval_function paths; "
                "distinct_nontrivial = distinct (signature, bound-parameter tuple) outcomes",
        "signatures": len(sigs), "call_shapes": len(cls), "well_formed": n_ok, "ill_formed": n_fail,
        "rejected_signatures": n_def_err,
        "samples": samples,
    }
    res.assumptions = ["CPython's call semantics are the reference for binding",
                       "calls are written in the argument order Starlark's grammar accepts (positional, named, *seq, **map)"]
    return res


def replay(path):
    rep = json.load(open(path))["replay"]
    o = vlib.run_sut("run", [rep["spec"]])[0]
    print(json.dumps({"replay": rep, "now": o}, indent=1))
    st = o["steps"][-1] if o.get("steps") else {}
    if rep.get("expected") is not None:
        return 0 if (st.get("out") and all(x == rep["expected"] for x in st["out"])) or st.get("res") == rep["expected"] else 1
    return 0 if st.get("err") else 1
