"""C03 — GC is invisible: every placement of collections at the offered safepoints (hook H1),
old arenas poisoned (hook H2); transcript, result, error and frozen exports must equal the
no-collection run."""
import itertools
import json

import vlib

PID = "C03"

# (code, requires, defines)
A = [
    ("a = [1, [2], 'x' * 2]", "", "a"),
    ("a = [[i, str(i)] for i in range(3)]", "", "a"),
    ("b = a", "a", "b"),
    ("b = [a, a]", "a", "b"),
    ("a.append(a)", "a", ""),
    ("a.append([len(a)])", "a", ""),
    ("a = a + [[7]]", "a", ""),
    ("a.pop()", "a", ""),
    ("a[0] = {'in': a}", "a", ""),
    ("d = {'k': [1], 2: (3, [4])}", "", "d"),
    ("d = {k: [v] for k, v in [(1, 2), ('x', 'y' * 3)]}", "", "d"),
    ("d['self'] = d", "d", ""),
    ("d['a'] = a", "da", ""),
    ("a.append(d)", "da", ""),
    ("d.pop('k')", "d", ""),
    ("s = set([1, 'two', (3, 4)])", "", "s"),
    ("s.add('n' + str(len(s)))", "s", ""),
    ("t = (1, 'ab' * 3, [5])", "", "t"),
    ("t = struct(f = [1], g = 'gg' + str(2))", "", "t"),
    ("t = 'ab' * 3 + str(len('xyz'))", "", "t"),
    ("t = (1 << 80) + 1", "", "t"),
    ("t = range(2, 9, 3)", "", "t"),
    ("t = 2.5 * 3", "", "t"),
    ("t = intern('ab' + 'cd')", "", "t"),
    ("t = host_str('hs') + 'x'", "", "t"),
    ("t = [a, t]", "at", ""),
    ("t = (a, 1)", "a", "t"),
    ("a.append(t)", "at", ""),
    ("t = None", "", "t"),
    ("a = None", "a", ""),
    ("d['t'] = t", "dt", ""),
    ("t = (d, (a,))", "ad", "t"),
    ("t = {'t': t}", "t", ""),
    ("def f(x = [0], l = [9]):\n    l.append(x)\n    return l", "", "f"),
    ("def f(x = None):\n    return [x, a]", "a", "f"),
    ("def mk(v):\n    def inner(x = None):\n        return [v, x]\n    return inner\nf = mk([1, 'c' * 2])", "", "f"),
    ("f = lambda y = [3]: y", "", "f"),
    ("g = partial(f, [4])", "f", "g"),
    # keyword names of a partial that are run-time (unfrozen-heap) strings
    ("def kf(alpha = None, **kw):\n    return [alpha, kw]\ng = partial(kf, **{host_str('alpha'): [4], host_str('k2'): [5, 'v' * 2]})", "", "g"),
    ("t = f([5])", "f", "t"),
    ("t = g()", "g", "t"),
    ("fs = [lambda: i for i in [[1], [2]]]\nt = [h() for h in fs]", "", "t"),
    ("R = record(x = int, y = list)\nt = R(x = 1, y = [2])", "", "t"),
    ("E = enum('p', 'q')\nt = E('q')", "", "t"),
    ("if len(a) > 2:\n    t = [a[-1]]\nelse:\n    t = {'no': a}", "a", "t"),
    ("for x in [[1], [2], [3]]:\n    a.append([x, len(a)])", "a", ""),
    ("for k in list(d.keys()):\n    d[str(k) + '_'] = [d[k]]", "d", ""),
    ("set_extra([a, 'e' * 2])", "a", "X"),
    ("t = get_extra()", "X", "t"),
    ("pre.append([len(pre)])", "", ""),
    ("t = [pre, pre2]", "", "t"),
    ("t = json.encode({'j': [1, 'x']})", "", "t"),
    ("t = sorted([[2], [1]], key = lambda v: v[0])", "", "t"),
    ("t = '%s-%s' % ('p' * 2, [1])", "", "t"),
    ("t = list(zip([[1]], ['z' * 2]))", "", "t"),
    ("t = dict(a = [1])", "", "t"),
    ("t = ('m' * 3).upper().split('M')", "", "t"),
]
REDUCED = [0, 2, 4, 5, 9, 11, 12, 15, 17, 18, 19, 27, 29, 31, 33, 35, 38, 40, 41, 42]

VARNAMES = {"a": "a", "b": "b", "d": "d", "s": "s", "t": "t", "f": "f", "g": "g"}


def seq_programs(alphabet, L):
    for n in range(1, L + 1):
        for combo in itertools.product(alphabet, repeat=n):
            defined = set()
            lines = []
            ok = True
            for code, req, dfn in combo:
                if not set(req) <= defined:
                    ok = False
                    break
                lines.append(code)
                defined |= set(dfn)
                names = sorted(v for v in defined if v in VARNAMES)
                obs = ", ".join(names)
                call = ""
                if "f" in defined:
                    call = ", f()"
                lines.append(f"emit([{obs}{call}])")
            if ok:
                yield "\n".join(lines) + "\n", sorted(v for v in defined if v in "abdst")


SCENARIOS = [
    # cycles through immutable containers, reached first from every possible root order
    (["t = None\na = [1]\nt = (a, 2)\na.append(t)\nemit([a, t])\nb = [t]\nemit(b)\na = None\nemit([t, b])\n"], ["t", "b"]),
    (["a = [1]\nt = (a, 2)\na.append(t)\nemit([a, t])\na = None\nemit(t)\nu = (t, t)\nemit(u)\nt = None\nemit(u)\n"], ["u"]),
    (["t = None\nd = {}\nt = (d, [d])\nd['t'] = t\nemit(t)\ns = struct(t = t, d = d)\nemit(s)\nd = None\nemit([t, s])\n"], ["t", "s"]),
    (["t = None\nu = None\na = []\nt = (a,)\nu = ((t, a), t)\na.append(u)\nemit(u)\nemit(t)\na.append(1)\nemit([a, t, u])\n"], ["t", "u", "a"]),
    (["R = record(x = list, y = typing.Any)\nr = None\nl = [1]\nr = R(x = l, y = None)\nl.append(r)\nemit(r)\nl = None\nemit(r)\nq = (r, r.x)\nemit(q)\n"], ["r", "q"]),
    # (steps, freeze names)
    (["a = [1]\nb = [a]\na.append(b)\nd = {'a': a, 'b': b}\nd['d'] = d\nemit([a, b, d])\n"
      "def f(x, l = a):\n    l.append(x)\n    return [l, d]\nemit(f(3))\nc = f\nt = (c, [c])\nemit(f(4))\n"
      "s = set([1, 'x'])\ns.add((2, 3))\nemit([s, t[1][0](5)])\n"], ["a", "b", "d", "s"]),
    (["x = []\nfor i in range(5):\n    x.append([i, 'v' * i])\nemit(x)\ny = [e for e in x if e[0] % 2]\nemit(y)\n"
      "x.clear()\nemit([x, y])\nz = {str(k): v for k, v in y}\nemit(z)\nz['y'] = y\ny.append(z)\nemit(y)\n"], ["x", "y", "z"]),
    (["def mk(n):\n    c = [n]\n    def inc():\n        c[0] += 1\n        return c\n    return inc\n"
      "i1 = mk(1)\ni2 = mk(10)\nemit([i1(), i2()])\nfs = [i1, i2]\nemit([g() for g in fs])\n"
      "p = partial(lambda a, b: [a, b], [1])\nemit(p('z' * 3))\nemit([i1(), p(2)])\n"], []),
    (["R = record(x = int, y = list)\nE = enum('p', 'q')\nr = R(x = 1, y = [E('p')])\nemit(r)\nl = [r, E('q'), R]\n"
      "emit(l)\nst = struct(r = r, l = l, e = E)\nemit(st)\nemit(st.l[0].y)\nemit([v for v in E])\n"], ["r", "l", "st"]),
    (["pre.append('p1')\nemit(pre)\nq = [pre, pre2]\nset_extra({'q': q})\nemit(get_extra())\npre2['n'] = [pre]\n"
      "emit([pre, pre2, q])\nemit(get_extra())\n",
      "emit([pre, pre2, q])\nq.append(get_extra())\nemit(q)\nw = [q]\nemit(w)\n"], ["q"]),
    (["a = [1]\nset_later('z', [a, 'late' * 2])\na.append(2)\nemit(a)\n",
      "emit(z)\nz.append(a)\nemit([a, z])\n"], ["a", "z"]),
    (["if True:\n    a = [[1], [2]]\n    b = a[0]\nelse:\n    a = None\nemit([a, b])\n"
      "if len(a) == 2:\n    c = {'k': b}\n    b.append(c)\nemit([a, b, c])\n"
      "for v in [[9], [8]]:\n    a.append(v)\n    v.append(a[0])\nemit(a)\n"], ["a", "b", "c"]),
    (["big = 1 << 100\nf = 1.5\ns = 'abc' * 5\nt = (big, f, s, [big + 1])\nemit(t)\nu = {big: s, f: t}\nemit(u)\n"
      "s2 = s[1:7] + str(big)\nemit(s2)\nemit([s2.upper(), u[big]])\n"], ["t", "u", "s2"]),
    (["load('lib.star', 'L', 'mk')\nx = [L, mk(3)]\nemit(x)\ny = mk([x])\nemit(y)\nx.append(y)\nemit(x)\n"], ["x", "y"]),
    (["def fail():\n    return [1][2]\na = [[1]]\nb = {'a': a}\nemit(b)\nfail()\n",
      "emit([a, b])\na.append(b)\nemit(a)\n"], ["a", "b"]),
]
LIB = [["lib.star", "L = [1, [2, 'l' * 2]]\ndef mk(v):\n    return [v, L]\n"]]


def run(tier):
    res = vlib.Result(PID, tier, "model_checking")
    q = tier == "quick"
    specs = []
    preset = {"pre": [1, [2, "h"]], "pre2": {"k": ["v"]}, "$extra": ["x0"]}

    def add(steps, names, full_n):
        specs.append({"id": len(specs), "steps": steps, "libs": LIB, "full_n": full_n,
                      "opts": {"preset": preset, "freeze_get": names}})

    for src, names in seq_programs(A, 2):
        add([src], names, 10 if q else 14)
    red = [A[i] for i in REDUCED]
    for src, names in seq_programs(A, 3):
        add([src], names, 8 if q else 12)
    if not q:
        for src, names in seq_programs(red, 4):
            add([src], names, 10)
    for steps, names in SCENARIOS:
        add(steps, names, 13 if q else 16)
    # dedupe
    seen, uniq = set(), []
    for s in specs:
        k = json.dumps(s["steps"])
        if k not in seen:
            seen.add(k)
            uniq.append(s)
    specs = uniq
    vlib.log(f"[C03] {len(specs)} programs")
    outs = vlib.run_sut("gcsweep", specs, timeout=7200)
    runs = colls = full = ncrash = 0
    distinct = set()
    hist = {}
    for s, o in zip(specs, outs):
        if "crash" in o:
            # a crash under some schedule: find a minimal mask by running masks one by one
            ncrash += 1
            rep = minimise_crash(s) if ncrash <= 3 else {"spec": s, "mask": None, "note": "crash (not minimised)"}
            res.violation("C03:crash", rep)
            continue
        if o.get("base_panic") or o.get("nondeterministic_baseline"):
            res.violation("C03:baseline", {"spec": s, "out": o})
            continue
        runs += o["schedules"] + 2
        colls += o["collections"]
        full += 1 if o["full"] else 0
        hist[o["safepoints"]] = hist.get(o["safepoints"], 0) + 1
        distinct.add(json.dumps(o["base"]["steps"]))
        if o["diff"]:
            kind = "panic" if "panic" in o["diff"] else "diff"
            res.violation(f"C03:{kind}", {"spec": s, "mask": o["diff"]["mask"], "tail": o["diff"]["tail"],
                                          "base": o["base"], "got": o["diff"].get("got"), "panic": o["diff"].get("panic")})
    res.coverage = {
        "states": len(specs),
        "transitions": runs,
        "traces_validated_against_impl": runs,
        "samples": [specs[0]["steps"], specs[len(specs) // 2]["steps"], SCENARIOS[0][0]],
        "programs": len(specs),
        "programs_with_all_2^n_schedules": full,
        "collections_performed": colls,
        "safepoint_histogram": hist,
        "distinct_baseline_transcripts": len(distinct),
        "explanation": "states = programs; transitions = complete executions of the real evaluator, one per (program, GC "
                       "schedule); schedule space per program = every subset of its n safepoints (n <= full_n) else all "
                       "subsets with <=2 collections + every k-th (k<=4, all offsets) + always; every execution is on the "
                       "implementation itself (hook H1 decides each safepoint, H2 poisons dropped arenas)",
        "exhaustive": True,
    }
    res.assumptions = ["collections can only be placed where the evaluator offers a safepoint (top-level statements)",
                       "the heap-shaping alphabet in py/checks/c03.py"]
    return res


def minimise_crash(spec):
    """Run the baseline and then single-collection masks individually to find a crashing schedule."""
    base = vlib.run_sut("run", [dict(spec, opts=dict(spec["opts"], gc={"mask": "", "tail": False}))])[0]
    if "crash" in base:
        return {"spec": spec, "mask": "", "note": "crashes without any collection", "crash": base}
    n = base["gc"]["safepoints"]
    masks = ["".join("1" if j == i else "0" for j in range(n)) for i in range(n)]
    masks += ["".join("1" if j in (i, k) else "0" for j in range(n)) for i in range(n) for k in range(i + 1, n)]
    masks.append("1" * n)
    outs = vlib.run_sut("run", [dict(spec, opts=dict(spec["opts"], gc={"mask": m, "tail": False})) for m in masks], shard=1)
    for m, o in zip(masks, outs):
        if "crash" in o or "panic" in o:
            return {"spec": spec, "mask": m, "tail": False, "crash": o}
    return {"spec": spec, "mask": None, "note": "crash under the full sweep only"}


def replay(path):
    rep = json.load(open(path))["replay"]
    spec = rep["spec"]
    mask = rep.get("mask") or ""
    a = vlib.run_sut("run", [dict(spec, opts=dict(spec["opts"], gc={"mask": "", "tail": False}))])[0]
    b = vlib.run_sut("run", [dict(spec, opts=dict(spec["opts"], gc={"mask": mask, "tail": rep.get("tail", False)}))])[0]
    for o in (a, b):
        o.pop("gc", None)
    print(json.dumps({"no_gc": a, "with_schedule": b, "mask": mask}, indent=1))
    return 0 if a == b else 1
