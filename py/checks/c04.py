"""C04 — freezing preserves every value and makes it permanently immutable."""
import itertools
import json

import vlib

PID = "C04"

LIB = '''R = record(x = int, y = list)
E = enum("p", "q")
def _mk():
    c = [0, [1]]
    def f():
        return c
    return f
def _pf(a, b = None):
    return [a, b]
L = [1, [2], "s"]
D = {"k": [1], 2: (3, [4])}
S = set([1, "a", (2, 3)])
T = (1, [2], {"a": [3]})
ST = struct(f = [1], g = {"h": [2]})
RV = R(x = 1, y = [2, [3]])
EV = E("q")
RG = range(2, 9, 3)
STR = "ab" * 3
BIG = (1 << 80) + 1
FL = 2.5
NO = None
TR = True
FN = _mk()
P = partial(_pf, [7])
A = [L, L]
C = [1]
C.append(C)
DC = {"v": [0]}
DC["self"] = DC
LD = [{"a": [1]}, {"b": (2, [3])}]
EMPTY = [[], {}, set(), ()]
NEST = {"l": [L, D], "t": (S, ST)}
'''
EXPORTS = ["L", "D", "S", "T", "ST", "RV", "EV", "RG", "STR", "BIG", "FL", "NO", "TR", "A", "C", "DC", "LD", "EMPTY", "NEST"]
CALLS = ["FN()", "P()", "P(b = [8])"]

# access paths to reachable mutable containers: (path expression, container kind)
PATHS = [
    ("L", "list"), ("L[1]", "list"), ("D", "dict"), ('D["k"]', "list"), ("D[2][1]", "list"), ("S", "set"), ("T[1]", "list"), ('T[2]', "dict"),
    ('T[2]["a"]', "list"), ("ST.f", "list"), ("ST.g", "dict"), ('ST.g["h"]', "list"), ("RV.y", "list"), ("RV.y[1]", "list"),
    ("FN()", "list"), ("FN()[1]", "list"), ("P()[0]", "list"), ("A", "list"), ("A[0]", "list"), ("A[1][1]", "list"), ("C", "list"), ("C[1]", "list"),
    ("C[1][1][1]", "list"), ("DC", "dict"), ('DC["self"]', "dict"), ('DC["self"]["v"]', "list"), ("LD", "list"), ("LD[0]", "dict"),
    ('LD[0]["a"]', "list"), ("LD[1]['b'][1]", "list"), ("EMPTY", "list"), ("EMPTY[0]", "list"), ("EMPTY[1]", "dict"), ("EMPTY[2]", "set"),
    ('NEST', "dict"), ('NEST["l"]', "list"), ('NEST["l"][0]', "list"), ('NEST["l"][1]', "dict"), ('NEST["t"][0]', "set"), ('NEST["t"][1].f', "list"),
    ("[x for x in A][0]", "list"), ("list(D.values())[0]", "list"), ("sorted([L])[0]", "list"), ("(L if True else None)", "list"),
]
ATTR_PATHS = [("ST", "f"), ("ST", "g"), ("RV", "x"), ("RV", "y"), ("EV", "value"), ("NEST['t'][1]", "f")]

ARGS = ["", "9", "1", "0", "[9]", "{9: 9}", "9, 9", "1, 9", "set([9])", "[(9, 9)]", "-1", "2", '"k"', '"a"', "(2, 3)"]
SHAPE_VARIANTS = {"list": ["y.extend([])", "y.extend(y)", "h[0] += []", "h[0] += h[0]", "h[0] += y", "y.remove(12345) if False else y.extend(())"],
                  "dict": ["y.update({})", "y.update(y)", "h[0] |= {}", "h[0] |= h[0]", "h[0] |= y", "y.update()", "y.setdefault(list(y.keys())[0]) if y else y.update([])"],
                  "set": ["y.update([])", "y.update(y)", "y.discard(12345)", "y.difference_update([])"]}
STMT_FORMS = ["y[0] = 9", "y[1] = 9", "y[9] = 9", 'y["k"] = 9', 'y["z"] = 9', "h[0] += [9]", "h[0] |= {9: 9}", "h[0] |= set([9])",
              "y[0] += 1", "y[1] += [1]", 'y["k"] += [1]']
FRESH = {"list": "[1, [2], 3]", "dict": '{"k": [1], 2: 3, "a": 4}', "set": 'set([1, "a", (2, 3)])'}


def discover():
    """For each container kind: mutators (change an unfrozen fresh value) and readers (succeed, leave it unchanged)."""
    dirs = vlib.run_sut("run", [{"id": 0, "steps": [f"emit(dir({c}))"]} for c in FRESH.values()])
    progs, meta = [], []
    for (kind, c), d in zip(FRESH.items(), dirs):
        names = [n[2:-1] for n in d["steps"][0]["out"][0][4:-1].split(",") if n]
        forms = [(f"y.{m}({a})", False) for m in names for a in ARGS] + [(s, True) for s in STMT_FORMS]
        for form, is_stmt in forms:
            body = f"    {form}\n" if is_stmt else f"    return {form}\n"
            progs.append(f"y = {c}\nh = [y]\nemit(y)\ndef m():\n{body}r = m()\nemit(y)\nemit(r)\n")
            meta.append((kind, form, is_stmt))
    outs = vlib.run_sut("run", [{"id": i, "steps": [p]} for i, p in enumerate(progs)])
    muts, readers = {k: [] for k in FRESH}, {k: [] for k in FRESH}
    for (kind, form, is_stmt), o in zip(meta, outs):
        st = o["steps"][0]
        if st["err"] is None and len(st["out"]) == 3:
            if st["out"][0] != st["out"][1]:
                muts[kind].append((form, is_stmt))
            elif not is_stmt:
                readers[kind].append(form)
    # a reader is a method NONE of whose probed calls mutated the value (s.add(1) on a set containing 1 is still a mutator)
    for k in readers:
        mut_methods = {f.split("(")[0] for f, _ in muts[k]}
        readers[k] = [f for f in readers[k] if f.split("(")[0] not in mut_methods]
    return muts, readers


READ_OPS = ["len(y)", "str(y)", "repr(y)", "bool(y)", "y == y", "[x for x in y]", "list(y)", "y[0]", "y[-1]", "y[0:1]", "y + y", "y * 2",
            "1 in y", '"k" in y', "sorted([str(x) for x in y])", "type(y)", "json.encode(y)", "[y, y]", "(y,)", "{1: y}", "y.f", "y.x", "y.value",
            "y.index", "y | y", "max(y)", "min([len(str(x)) for x in y])", "any(y)", "all(y)", "list(reversed(list(y)))", "list(enumerate(y))",
            "list(zip(y, y))", "tuple(y)", "dict(y)", "set(y)", "hash(y) == hash(y)", "y != y", "y < y", "dir(y) == dir(y)", "y()", "y(1)",
            "'%s' % (y,)", "'{}'.format(y)", "y and 1", "not y", "isinstance(y, list)", "getattr(y, 'f', 0)", "hasattr(y, 'x')"]


def run(tier):
    res = vlib.Result(PID, tier, "exploration")
    muts, readers = discover()
    vlib.log("[C04] discovered: " + ", ".join(f"{k}: {len(muts[k])} mutators / {len(readers[k])} readers" for k in muts))
    for k in muts:
        if len(muts[k]) < 5:
            raise vlib.Machinery(f"too few mutators discovered for {k}")
    lib = [["lib.star", LIB]]
    allnames = EXPORTS + ["FN", "P", "R", "E"]
    ld = 'load("lib.star", ' + ", ".join(f'"{n}"' for n in allnames) + ")\n"
    specs, meta = [], []

    def add(kind, spec, info):
        spec["id"] = len(specs)
        spec.setdefault("opts", {})["dialect"] = "all"
        specs.append(spec)
        meta.append((kind, info))

    # (1) preservation: encodings / str / repr / == / hash before freeze (inside the module), after freeze via the API and via load
    obs = "".join(f"emit({n})\nemit([str({n}), repr({n})])\n" for n in EXPORTS) + \
        "".join(f"emit({c})\n" for c in CALLS) + \
        "emit([fails(lambda: hash(v)) or hash(v) for v in [" + ", ".join(EXPORTS) + "]])\n" + \
        "emit([[a == b for b in [" + ", ".join(EXPORTS) + "]] for a in [" + ", ".join(EXPORTS) + "]])\n"
    add("preserve-inside", {"steps": [LIB + obs], "opts": {"freeze_get": EXPORTS}}, None)
    add("preserve-loaded", {"libs": lib, "steps": [ld + obs]}, None)
    add("preserve-reexport", {"libs": lib + [["mid.star", ld + "W = [L, D, ST]\n"]],
                              "steps": ['load("mid.star", ' + ", ".join(f'"{n}"' for n in allnames) + ', "W")\n' + obs + "emit(W)\n"]}, None)
    # (1b) closures created in module B by a factory from frozen module A (reading A's globals), retained in B, called after B froze
    FACT = ('GREET = ["hello", "from", "lib"]\nCOUNT = [0]\nK = 7\ndef mkf(name):\n    def inner():\n        return (name, GREET, K)\n    return inner\n'
            'def mkl(n):\n    return lambda q = None: [n, GREET[0], q, K]\ndef mkdeep(a):\n    def l1():\n        def l2():\n            return [a, GREET, K]\n        return l2\n    return l1\n')
    MID = ('load("fact.star", "mkf", "mkl", "mkdeep")\nK = "B-slot"\nGREET = {"user": "slot B"}\nCOUNT = "B"\nCF = mkf("bob")\nCF2 = mkf([1, 2])\nCL = mkl(5)\nCD = mkdeep("d")()\n'
           'def usecf():\n    return [CF(), CL(1)]\nHOLD = [CF, {"k": CL}, (CD,)]\n')
    OBS2 = 'emit(CF())\nemit(CF2())\nemit(CL())\nemit(CL(3))\nemit(CD())\nemit(usecf())\nemit(HOLD[0]())\nemit(HOLD[1]["k"]())\nemit(HOLD[2][0]())\n'
    add("closure-inside", {"libs": [["fact.star", FACT]], "steps": [MID + OBS2]}, None)
    add("closure-loaded", {"libs": [["fact.star", FACT], ["mid.star", MID]],
                           "steps": ['load("mid.star", "CF", "CF2", "CL", "CD", "usecf", "HOLD")\n' + OBS2]}, None)
    add("closure-loaded2", {"libs": [["fact.star", FACT], ["mid.star", MID], ["mid2.star", 'load("mid.star", "CF", "CF2", "CL", "CD", "usecf", "HOLD")\nK = 0\nGREET = 0\n']],
                            "steps": ['load("mid2.star", "CF", "CF2", "CL", "CD", "usecf", "HOLD")\nK = 1\nGREET = 1\n' + OBS2]}, None)
    # (2) immutability: every discovered mutator on every path; value unchanged afterwards
    for path, kind in PATHS:
        lines = [ld, f"y = {path}\nh = [y]\nemit(y)\n"]
        tags = []
        for k, (form, is_stmt) in enumerate(muts[kind]):
            body = f"    {form}\n" if is_stmt else f"    return {form}\n"
            lines.append(f"def m{k}():\n{body}emit(fails(m{k}))\n")
            tags.append(form)
        lines.append(f"emit(y)\nemit({path})\n")
        add("immutable", {"libs": lib, "steps": ["".join(lines)]}, (path, kind, tags))
        # the same attempts made inside a function of the importing module and at the end of a loaded module
        body = "".join(f"    emit(fails(lambda: {form}))\n" for form, is_stmt in muts[kind] if not is_stmt)
        add("immutable", {"libs": lib, "steps": [ld + f"y = {path}\nh = [y]\nemit(y)\ndef go():\n{body}go()\nemit(y)\nemit({path})\n"]},
            (path, kind, [f for f, s in muts[kind] if not s]))
    # no-op spellings of mutating operations (self-alias, empty argument): the operation is a mutation attempt whatever its argument
    for path, kind in PATHS:
        lines = [ld, f"y = {path}\nh = [y]\nemit(y)\n"]
        forms = SHAPE_VARIANTS[kind]
        for k, form in enumerate(forms):
            is_stmt = form.startswith("h[0]")
            body = f"    {form}\n" if is_stmt else f"    return {form}\n"
            lines.append(f"def m{k}():\n{body}emit(fails(m{k}))\n")
        lines.append(f"emit(y)\nemit({path})\n")
        add("immutable", {"libs": lib, "steps": ["".join(lines)]}, (path, kind, forms))
    for base, attr in ATTR_PATHS:
        add("immutable-attr", {"libs": lib, "steps": [ld + f"y = {base}\nemit(y)\ndef m():\n    y.{attr} = 9\nemit(fails(m))\n"
                                                           f"def m2():\n    y.zz = 9\nemit(fails(m2))\nemit(y)\n"]}, (base, attr))
    # (3) non-mutating operations give the same result on the frozen value as before freezing
    for path, kind in PATHS + [(n, "other") for n in EXPORTS] + [("FN", "other"), ("P", "other"), ("R", "other"), ("E", "other")]:
        ops = READ_OPS + (readers.get(kind, []) if kind in readers else [])
        body = f"y = {path}\n" + "".join(f"emit(fails(lambda: {op}) or [{op}])\n" for op in ops)
        add("reads-inside", {"steps": [LIB + body]}, (path, ops))
        add("reads-loaded", {"libs": lib, "steps": [ld + body]}, (path, ops))
    # histories: two importing modules attempting mutations in both orders, then a reader
    q = tier == "quick"
    for path, kind in [("L", "list"), ('D["k"]', "list"), ("D", "dict"), ("S", "set"), ("C[1]", "list"), ("ST.g", "dict")]:
        ms = [f for f, s in muts[kind] if not s]
        ms = ms[:6] if q else ms
        for m1, m2 in itertools.product(ms, repeat=2):
            ia = ["a.star", ld + f"y = {path}\nemit(fails(lambda: {m1}))\nXA = [y]\n"]
            ib = ["b.star", ld + f"y = {path}\nemit(fails(lambda: {m2}))\nXB = (y,)\n"]
            for order in ([ia, ib], [ib, ia]):
                add("history", {"libs": lib + order,
                                "steps": [ld + 'load("a.star", "XA")\nload("b.star", "XB")\n' + f"emit([{path}, XA, XB])\n"]}, (path, m1, m2))
    vlib.log(f"[C04] {len(specs)} programs")
    outs = vlib.run_sut("run", specs)
    checks = 0
    distinct = set()
    pres = {}
    reads = {}
    hist = {}
    for s, (kind, info), o in zip(specs, meta, outs):
        if "crash" in o or "panic" in o:
            res.violation("C04:crash", {"spec": s, "out": str(o)[:800]})
            continue
        errs = [l["err"] for l in o["libs"] if l["err"]] + [st["err"] for st in o["steps"] if st["err"]]
        out = [x for l in o["libs"] for x in l["out"]] + [x for st in o["steps"] for x in st["out"]]
        distinct.add(tuple(out))
        if kind.startswith("closure"):
            if errs:
                res.violation(f"C04:{kind}:error", {"spec": s, "err": errs[0]})
            pres[kind] = (out, None)
            continue
        if kind.startswith("preserve"):
            if errs:
                res.violation(f"C04:{kind}:error", {"spec": s, "err": errs[0]})
                continue
            pres[kind] = (out, o.get("frozen"))
        elif kind == "immutable":
            path, ck, tags = info
            if errs:
                res.violation(f"C04:immutable-error:{ck}", {"spec": s, "path": path, "err": errs[0]})
                continue
            before, after, after2 = out[0], out[-2], out[-1]
            for form, r in zip(tags, out[1:-2]):
                checks += 1
                if r != "T":
                    res.violation(f"C04:mutation-succeeded:{ck}:{form.split('(')[0]}", {"path": path, "mutator": form, "spec": s})
            if not (before == after == after2):
                res.violation(f"C04:value-changed:{ck}", {"path": path, "before": before, "after": after, "spec": s})
        elif kind == "immutable-attr":
            if errs or out[1] != "T" or out[2] != "T" or out[0] != out[3]:
                res.violation("C04:attr-mutation", {"info": info, "out": out, "errs": errs, "spec": s})
            checks += 2
        elif kind.startswith("reads"):
            path, ops = info
            if errs:
                res.violation(f"C04:{kind}:error", {"spec": s, "path": path, "err": errs[0]})
                continue
            reads.setdefault(path, {})[kind] = (ops, out)
        elif kind == "history":
            if errs:
                res.violation("C04:history-error", {"spec": s, "err": errs[0]})
                continue
            hist.setdefault(info, []).append((out, s))
    # preservation comparisons
    if "preserve-inside" in pres and "preserve-loaded" in pres:
        a, fz = pres["preserve-inside"]
        b, _ = pres["preserve-loaded"]
        c = pres.get("preserve-reexport", (None, None))[0]
        a = [x.replace("step0.star.", "lib.star.") for x in a]
        for i, (x, y) in enumerate(zip(a, b)):
            checks += 1
            if x != y:
                nm = EXPORTS[i // 2] if i < 2 * len(EXPORTS) else "call/hash/eq"
                res.violation(f"C04:not-preserved:{nm}", {"export": nm, "before_freeze": x, "after_freeze_loaded": y})
        if c is not None and c[:len(b)] != b:
            k = next(i for i, (x, y) in enumerate(zip(c, b)) if x != y)
            res.violation("C04:not-preserved-reexport", {"index": k, "loaded": b[k], "reexported": c[k]})
        for i, n in enumerate(EXPORTS):
            checks += 1
            if fz is None or fz.get(n) != a[2 * i]:
                res.violation(f"C04:not-preserved-api:{n}", {"export": n, "before_freeze": a[2 * i], "get_owned": fz and fz.get(n)})
    if "closure-inside" in pres:
        a = pres["closure-inside"][0]
        for k2 in ("closure-loaded", "closure-loaded2"):
            b = pres.get(k2, (None,))[0]
            checks += 1
            if b is not None and a != b:
                i = next((i for i, (x, y) in enumerate(zip(a, b)) if x != y), min(len(a), len(b)))
                res.violation(f"C04:closure-changed-by-freeze:{k2}", {"call_index": i, "before_freeze": a[i] if i < len(a) else None,
                                                                     "after_freeze": b[i] if i < len(b) else None})
    for path, d in reads.items():
        if "reads-inside" in d and "reads-loaded" in d:
            ops, a = d["reads-inside"]
            _, b = d["reads-loaded"]
            for op, x, y in zip(ops, a, b):
                checks += 1
                # qualified function names carry the module's file name, which legitimately differs
                if x.replace("step0.star.", "lib.star.") != y:
                    res.violation(f"C04:read-differs:{op.split('(')[0][:20]}", {"path": path, "op": op, "unfrozen": x, "frozen": y})
    for info, runs in hist.items():
        checks += 1
        if len(runs) == 2:
            # final observation (the last emit) must not depend on the order of the importing modules
            if runs[0][0][-1] != runs[1][0][-1] or any(r[0][i] != "T" for r in runs for i in (0, 1)):
                res.violation("C04:history", {"path": info[0], "m1": info[1], "m2": info[2], "order_ab": runs[0][0], "order_ba": runs[1][0]})
    # (6) strings whose 32-bit hashes COLLIDE, one a literal (interned into the frozen heap at compile time), the other built at
    # run time (re-allocated through the frozen heap's interner on freeze): freezing must keep them apart.  The colliding pairs are
    # found by exhaustive search over the first N strings of a family, using the implementation's own hash.
    N = 200000 if tier == "quick" else 1000000
    ho = vlib.run_sut("run", [{"id": 0, "steps": [f"emit([key_hash('key_%d' % i) for i in range({N})])\n"], "opts": {"dialect": "all"}}], timeout=900)[0]
    hs = [int(x[1:]) for x in ho["steps"][0]["out"][0][4:-1].split(",")]
    first, pairs = {}, []
    for i, h in enumerate(hs):
        if h in first:
            pairs.append((first[h], i))
        else:
            first[h] = i
    pairs = pairs[:8]
    cspecs = []
    for (i, j) in pairs:
        for lit, run_ in ((i, j), (j, i)):
            a_, b_ = f"key_{lit}", f"key_{run_}"
            lib2 = (f'A1 = "{a_}"\nB1 = host_str("key") + host_str("_%d" % {run_})\nB2 = "key_" + str({run_})\nB3 = "%s_%d" % ("key", {run_})\n'
                    f'PAIR = [A1, B1, B2, B3, host_str("{a_}")]\nDK = {{A1: 1}}\nDK[B1] = 2\nSK = set([B2, A1])\nTB = (B1, [B3])\n')
            names = ["A1", "B1", "B2", "B3", "PAIR", "DK", "SK", "TB"]
            obs2 = "".join(f"emit({n})\n" for n in names) + "emit([A1 == B1, B1 == B2, len(DK), len(SK), DK.get(B3), B1 in SK, A1 in SK])\n"
            cspecs.append({"id": len(cspecs), "steps": [lib2 + obs2], "opts": {"dialect": "all", "freeze_get": names}})
            cspecs.append({"id": len(cspecs), "libs": [["col.star", lib2]], "opts": {"dialect": "all"},
                           "steps": ['load("col.star", ' + ", ".join(f'"{n}"' for n in names) + ")\n" + obs2]})
    couts = vlib.run_sut("run", cspecs) if cspecs else []
    for k in range(0, len(couts), 2):
        inside, loaded = couts[k], couts[k + 1]
        checks += 1
        if any("crash" in o or "panic" in o for o in (inside, loaded)):
            res.violation("C04:collision:crash", {"spec": cspecs[k], "out": [str(inside)[:300], str(loaded)[:300]]})
            continue
        a_out = [x for st in inside["steps"] for x in st["out"]]
        b_out = [x for st in loaded["steps"] for x in st["out"]]
        fz = inside.get("frozen") or {}
        # absolute expectation for the four strings (the self-differential alone is blind when a literal is already wrong)
        lit_, run2 = (pairs[k // 4] if (k // 2) % 2 == 0 else pairs[k // 4][::-1])
        want = [f's"key_{lit_}"'] + [f's"key_{run2}"'] * 3
        if a_out[:4] != want or b_out[:4] != want:
            res.violation("C04:not-preserved:colliding-strings", {"spec": cspecs[k], "expected": want, "before_freeze": a_out[:4], "after_freeze_loaded": b_out[:4]})
        elif a_out != b_out:
            i = next((i for i, (x, y) in enumerate(zip(a_out, b_out)) if x != y), 0)
            res.violation("C04:not-preserved:colliding-strings", {"spec": cspecs[k], "before_freeze": a_out[i], "after_freeze_loaded": b_out[i]})
        elif any(fz.get(n) != a_out[i] for i, n in enumerate(["A1", "B1", "B2", "B3", "PAIR", "DK", "SK", "TB"])):
            res.violation("C04:not-preserved-api:colliding-strings", {"spec": cspecs[k], "before_freeze": a_out[:8], "get_owned": fz})
    if not pairs:
        raise vlib.Machinery(f"no colliding pair among the first {N} strings")
    collision_pairs = len(pairs)
    res.coverage = {
        "hash_colliding_string_pairs": collision_pairs,
        "evaluations": checks,
        "programs": len(specs),
        "distinct_nontrivial": len(distinct),
        "rule": "19 exports (nested/aliased/cyclic lists and dicts, set, tuple, struct, record, enum, range, scalars) + closures "
                "and partial; (1) encoding/str/repr/==/hash inside the module before freeze == FrozenModule::get_owned == "
                "load()ed == re-exported through a second module; (2) every mutator DISCOVERED from dir(value) x 15 argument "
                "tuples + 11 statement forms on each of 44 access paths (index, key, attribute, closure call, partial call, "
                "comprehension, sorted, conditional) fails and leaves the value unchanged, at module level and in a def; attribute "
                "assignment on structs/records/enums; (3) ~50 read operations + discovered non-mutating methods give identical "
                "results before and after freezing; histories: all ordered pairs of mutators from two importing modules in both "
                "load orders. distinct_nontrivial = distinct transcripts",
        "mutators": {k: [f for f, _ in v] for k, v in muts.items()},
        "samples": [specs[3]["steps"][0][-400:], specs[-1]["steps"][0][-200:]],
    }
    res.assumptions = ["a mutator is an operation that changes the canonical encoding of an unfrozen value"]
    return res


def replay(path):
    rep = json.load(open(path))["replay"]
    if "spec" in rep:
        o = vlib.run_sut("run", [rep["spec"]])[0]
        print(json.dumps({"was": {k: v for k, v in rep.items() if k != "spec"}, "now": [st["out"] for st in o.get("steps", [])]}, indent=1)[:4000])
    else:
        print(json.dumps(rep, indent=1))
    return 1
