"""C01 — evaluation agrees with CPython on the Python-shared core (bounded-exhaustive)."""
import json

import gen_core as G
import vlib

import os
PID = "C01"
DUMP = open(os.environ["VERIF_DUMP"], "w") if os.environ.get("VERIF_DUMP") else None


def families(tier):
    q = tier == "quick"
    yield from G.f1_depth1(None if not q else (G.INTS_SMALL + G.STRS[:5] + G.LISTS[:3] + G.TUPLES + G.DICTS[:2] + G.OTHER))
    if q:
        yield from G.f1_depth2(operands=["1", "-7", "2147483647", '"ab"', "[1]"],
                               ops=["+", "-", "*", "//", "%", "&", "|", "<<", "==", "<", "and", "or"])
    else:
        yield from G.f1_depth2()
    yield from (G.f2_slices(3, range(-4, 5)) if q else G.f2_slices(4, range(-5, 6)))
    yield from G.f3_methods()
    yield from G.f3_builtins()
    yield from G.f4_histories(2 if q else 3)
    yield from G.f5_control(4 if q else 5)
    yield from G.f6_scoping()
    yield from G.f7_comprehensions()
    yield from G.f9_functions()
    yield from G.f7b_traced()
    yield from G.f10_sizes()
    yield from G.f11_definite_assignment()
    yield from G.f12_evaluation_order()


def programs(tier):
    """Expand each generated case into its variants; dedupe by text."""
    seen = set()
    for fam, lit, var in families(tier):
        for form, src in (("lit", lit), ("var", var)):
            if src is None:
                continue
            for ctx, text in (("module", src), ("def", G.wrap_def(src))):
                if fam in ("F5", "F6", "F7b", "F11") and ctx == "def" and fam != "F7b":
                    continue  # these families place their own defs
                if text in seen:
                    continue
                seen.add(text)
                yield f"{fam}/{form}/{ctx}", text


def compare(py, st):
    """Return None if they agree, else a short reason."""
    if py is None or "oracle_crash" in py:
        return "oracle-crash"
    if "syntax_error" in py or "not_shared" in py or py.get("oracle_timeout") or py.get("oracle_memory"):
        return "skip"
    if "crash" in st or "panic" in st:
        return "sut-crash"
    step = st["steps"][0]
    failed = step["err"] is not None
    if failed and step.get("phase") == "parse":
        return "starlark-parse-error"
    if step["out"] != py["out"]:
        return "transcript"
    if failed != py["failed"]:
        return "outcome"
    return None


def run(tier):
    res = vlib.Result(PID, tier, "exploration")
    progs = list(programs(tier))
    vlib.log(f"[C01] {len(progs)} programs")
    # the oracle runs first (under its own time / memory limits): a program it has to give up on for lack of resources is not
    # given to the subject either (such programs made an engine child grow to tens of GB in the thorough tier)
    py = vlib.run_cpython([{"src": src} for _, src in progs])
    def oracle_gave_up(p):
        return p is not None and (p.get("oracle_timeout") or p.get("oracle_memory"))
    run_idx = [i for i, p in enumerate(py) if not oracle_gave_up(p)]
    specs = [{"id": k, "steps": [progs[i][1]], "opts": {"dialect": "all"}} for k, i in enumerate(run_idx)]
    outs = vlib.run_sut("run", specs)
    st = [{"steps": [{"out": [], "err": None, "res": None}]}] * len(progs)
    st = list(st)
    for i, o in zip(run_idx, outs):
        st[i] = o
    fam_counts, skipped, both_fail, distinct = {}, {}, 0, set()
    for (fam, src), p, s in zip(progs, py, st):
        f0 = fam.split("/")[0]
        fam_counts[f0] = fam_counts.get(f0, 0) + 1
        r = compare(p, s)
        if r == "skip":
            k = "syntax" if "syntax_error" in p else "not_shared" if "not_shared" in p else "resource"
            skipped[k] = skipped.get(k, 0) + 1
            continue
        if r == "oracle-crash":
            raise vlib.Machinery(f"oracle crashed on {src!r}: {p}")
        if r is None:
            if p["failed"]:
                both_fail += 1
            distinct.add((tuple(p["out"]), p["failed"]))
            continue
        key = f"C01:{r}:{f0}"
        if DUMP:
            DUMP.write(json.dumps({"key": key, "fam": fam, "src": src, "py": p, "st": s}) + "\n")
        res.violation(key, {"family": fam, "src": src, "cpython": p, "starlark": s, "reason": r})
    res.coverage = {
        "evaluations": len(progs) * 2,
        "programs": len(progs),
        "distinct_nontrivial": len(distinct),
        "rule": "every program of each bounded family (F1 operator expressions depth<=2, F2 every (start,stop,step), "
                "F3 every method/builtin x argument catalogue, F4 all list/dict method histories, F5 control-flow "
                "skeletons, F6 scoping skeletons, F7 comprehension clause combinations, F9 function corpus), each as "
                "literal/opaque-variable form and at module level/inside a def; run under starlark-rust and CPython; "
                "distinct_nontrivial = number of distinct (transcript, outcome) pairs observed",
        "families": fam_counts,
        "both_failed": both_fail,
        "skipped": skipped,
        "samples": [progs[0][1], progs[len(progs) // 2][1], progs[-1][1]],
    }
    res.assumptions = ["CPython 3.11 is the reference semantics on the whitelisted shared subset",
                       "programs outside the bounded families are not judged"]
    return res


def replay(path):
    rep = json.load(open(path))["replay"]
    src = rep["src"]
    st = vlib.run_sut("run", [{"id": 0, "steps": [src], "opts": {"dialect": "all"}}])[0]
    py = vlib.run_cpython([{"src": src}])[0]
    r = compare(py, st)
    print(json.dumps({"src": src, "cpython": py, "starlark": st, "verdict": r}, indent=1))
    return 1 if r not in (None, "skip") else 0
