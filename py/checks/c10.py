"""C10 — integer arithmetic is exact: boundary grid, all pairs, every operator, literal (folded)
and runtime forms and the Rust API; oracle = CPython's arbitrary-precision ints."""
import json

import vlib

PID = "C10"
BIN = ["+", "-", "*", "//", "%", "&", "|", "^"]
CMP = ["==", "!=", "<", "<=", ">", ">="]
PYOP = {
    "+": lambda a, b: a + b, "-": lambda a, b: a - b, "*": lambda a, b: a * b,
    "//": lambda a, b: a // b, "%": lambda a, b: a % b, "&": lambda a, b: a & b,
    "|": lambda a, b: a | b, "^": lambda a, b: a ^ b, "<<": lambda a, b: a << b, ">>": lambda a, b: a >> b,
    "==": lambda a, b: a == b, "!=": lambda a, b: a != b, "<": lambda a, b: a < b,
    "<=": lambda a, b: a <= b, ">": lambda a, b: a > b, ">=": lambda a, b: a >= b,
}


def grid(tier):
    if tier == "quick":
        ks = sorted(set(list(range(0, 71, 4)) + [1, 2, 3, 30, 31, 32, 33, 52, 53, 54, 62, 63, 64, 65, 127, 128, 256]))
    else:
        ks = list(range(0, 71)) + [126, 127, 128, 129, 254, 255, 256, 257]
    g = {0}
    for k in ks:
        for d in (-1, 0, 1):
            g.add(2 ** k + d)
            g.add(-(2 ** k) + d)
    return sorted(g)


SHIFTS = list(range(0, 71)) + [127, 128, 129, 255, 256, -1, -70]


def lit(x):
    return str(x) if x >= 0 else f"({x})"


def enc(v):
    if v is True:
        return "T"
    if v is False:
        return "F"
    return "i%d" % v


def gen(tier):
    """Yield (kind, src, expected_out or None-for-failure)."""
    G = grid(tier)
    # ---- binary ops, literal form: chunks of expressions that all succeed
    ok_lines, ok_exp, fails = [], [], []

    def add(expr, fn):
        try:
            v = fn()
        except (ZeroDivisionError, ValueError, OverflowError):
            fails.append(expr)
            return
        ok_lines.append(f"emit({expr})")
        ok_exp.append(enc(v))

    shift_bases = G if tier != "quick" else G[::3]
    for a in G:
        for b in G:
            for op in BIN + CMP:
                add(f"{lit(a)} {op} {lit(b)}", lambda: PYOP[op](a, b))
    for a in shift_bases:
        for s in SHIFTS:
            add(f"{lit(a)} << {lit(s)}", lambda: PYOP["<<"](a, s))
            add(f"{lit(a)} >> {lit(s)}", lambda: PYOP[">>"](a, s))
    for a in G:
        add(f"-{lit(a)}", lambda: -a)
        add(f"~{lit(a)}", lambda: ~a)
        add(f"+{lit(a)}", lambda: +a)
        add(f"abs({lit(a)})", lambda: abs(a))
        add(f"int(str({lit(a)}))", lambda: a)
        add(f"int(repr({lit(a)}))", lambda: a)
        add(f"int('%d' % {lit(a)})", lambda: a)
        add(f"int('{{}}'.format({lit(a)}))", lambda: a)
        add(f"int('%x' % {lit(a)}, 16)", lambda: a)
        add(f"int('%X' % {lit(a)}, 16)", lambda: a)
        add(f"int('%o' % {lit(a)}, 8)", lambda: a)
        add(f"len('%x' % {lit(a)})", lambda: len("%x" % a))
        add(f"len(str({lit(a)}))", lambda: len(str(a)))
        add(f"bool({lit(a)})", lambda: bool(a))
        add(f"{lit(a)} in [{lit(a)}]", lambda: True)
        add(f"{{{lit(a)}: 1}}[{lit(a)} + 0]", lambda: 1)
        add(f"int(True) + {lit(a)}", lambda: a + 1)
        # string -> int in every base, with and without prefix / sign / base 0
        neg = "-" if a < 0 else ""
        for base, fmt, pre in ((2, "b", "0b"), (8, "o", "0o"), (10, "d", ""), (16, "x", "0x"), (36, None, "")):
            if fmt is None:
                digs = to36(abs(a))
            else:
                digs = format(abs(a), fmt)
            add(f"int('{neg}{digs}', {base})", lambda: a)
            if pre:
                add(f"int('{neg}{pre}{digs}', {base})", lambda: a)
                add(f"int('{neg}{pre}{digs}', 0)", lambda: a)
                add(f"int('{neg}{pre.upper()}{digs.upper()}', 0)", lambda: a)
                # source literal
                add(f"{neg}{pre}{digs}", lambda: a)
            if base == 16:
                add(f"int('{neg}{digs.upper()}', 16)", lambda: a)
        if abs(a) < 2 ** 1000:
            add(f"int(float({lit(a)}))", lambda: int(float(a)))
    for f in ["1e20", "2.5", "-2.5", "-0.5", "0.0", "-0.0", "9007199254740993.0", "1.8446744073709552e19",
              "2147483648.0", "-2147483649.0", "4611686018427387904.0", "9.223372036854775807e18", "1e300", "-1e300"]:
        add(f"int({f})", lambda: int(float(f)))
    # chunk
    CH = 400
    for i in range(0, len(ok_lines), CH):
        yield "lit", "\n".join(ok_lines[i:i + CH]) + "\n", ok_exp[i:i + CH]
    for e in fails:
        yield "fail", f"emit({e})\n", None

    # ---- runtime form: operands through opaque(), all pairs within blocks of 12 values
    B = 12
    blocks = [G[i:i + B] for i in range(0, len(G), B)]
    for bi, ba in enumerate(blocks):
        for bj, bb in enumerate(blocks):
            lines = [f"a{i} = opaque({lit(v)})" for i, v in enumerate(ba)] + [f"b{j} = opaque({lit(v)})" for j, v in enumerate(bb)]
            exp = []
            for i, a in enumerate(ba):
                for j, b in enumerate(bb):
                    for op in BIN + CMP:
                        if op in ("//", "%") and b == 0:
                            continue
                        lines.append(f"emit(a{i} {op} b{j})")
                        exp.append(enc(PYOP[op](a, b)))
            yield "var", "\n".join(lines) + "\n", exp
    for ba in blocks:
        lines = [f"a{i} = opaque({lit(v)})" for i, v in enumerate(ba)] + [f"s{j} = opaque({lit(s)})" for j, s in enumerate(SHIFTS)]
        exp = []
        for i, a in enumerate(ba):
            for j, s in enumerate(SHIFTS):
                if s < 0:
                    continue
                lines.append(f"emit(a{i} << s{j})")
                exp.append(enc(a << s))
                lines.append(f"emit(a{i} >> s{j})")
                exp.append(enc(a >> s))
            lines.append(f"emit([-a{i}, ~a{i}, abs(a{i}), int(str(a{i})), int('%x' % a{i}, 16), int('%o' % a{i}, 8)])")
            exp.append("L#0[" + ",".join(enc(v) for v in (-a, ~a, abs(a), a, a, a)) + "]")
        yield "var", "\n".join(lines) + "\n", exp
    # runtime failures
    for a in G[:: max(1, len(G) // 40)]:
        for e in (f"opaque({lit(a)}) // opaque(0)", f"opaque({lit(a)}) % opaque(0)", f"opaque({lit(a)}) << opaque(-1)",
                  f"opaque({lit(a)}) >> opaque(-1)", f"opaque({lit(a)}) // (opaque(5) - 5)"):
            yield "fail", f"emit({e})\n", None


def to36(n):
    if n == 0:
        return "0"
    d = "0123456789abcdefghijklmnopqrstuvwxyz"
    s = ""
    while n:
        s = d[n % 36] + s
        n //= 36
    return s


def run(tier):
    res = vlib.Result(PID, tier, "exploration")
    cases = list(gen(tier))
    specs = [{"id": i, "steps": [src], "opts": {"dialect": "all"}} for i, (_, src, _) in enumerate(cases)]
    outs = vlib.run_sut("run", specs, shard=max(1, len(specs) // 64))
    n_expr = 0
    distinct = set()
    kinds = {}
    for (kind, src, exp), o in zip(cases, outs):
        kinds[kind] = kinds.get(kind, 0) + 1
        if "crash" in o or "panic" in o:
            res.violation("C10:crash", {"src": src[:2000], "out": o})
            continue
        st = o["steps"][0]
        if exp is None:
            n_expr += 1
            if st["err"] is None or st["out"]:
                res.violation("C10:should-fail", {"src": src, "out": st["out"]})
            continue
        n_expr += len(exp)
        distinct.update(exp)
        if st["out"] != exp or st["err"] is not None:
            # locate first differing expression
            lines = [l for l in src.split("\n") if l.startswith("emit(")]
            k = next((i for i, (x, y) in enumerate(zip(st["out"], exp)) if x != y), min(len(st["out"]), len(exp)))
            line = lines[k] if k < len(lines) else "?"
            setup = "\n".join(l for l in src.split("\n") if " = opaque(" in l)
            opname = line.split(" ")[1] if kind == "var" and len(line.split(" ")) > 2 else "expr"
            res.violation(f"C10:{kind}:{opname}",
                          {"src": (setup + "\n" if setup else "") + line + "\n", "expected": exp[k] if k < len(exp) else None,
                           "got": st["out"][k] if k < len(st["out"]) else None, "err": st["err"]})
    # Rust API path
    G = grid(tier)
    api = vlib.run_sut("c10api", [{"id": i, "a": str(a), "b": str(G[(i * 7 + 3) % len(G)])} for i, a in enumerate(G)])
    for i, (a, o) in enumerate(zip(G, api)):
        b = G[(i * 7 + 3) % len(G)]
        if "crash" in o or "panic" in o:
            res.violation("C10:api-crash", {"a": str(a), "b": str(b), "out": o})
            continue
        exp = api_expected(a, b)
        n_expr += len(exp)
        for k, v in exp.items():
            if o.get(k) != v:
                res.violation(f"C10:api:{k}", {"a": str(a), "b": str(b), "field": k, "expected": v, "got": o.get(k)})
    res.coverage = {
        "evaluations": n_expr,
        "distinct_nontrivial": len(distinct),
        "rule": "grid = {0} u {+-2^k, +-2^k+-1}; ALL ordered pairs x {+,-,*,//,%,&,|,^,==,!=,<,<=,>,>=} as folded literals and "
                "as runtime (opaque) values; every grid value x shift counts {0..70,127..129,255,256,-1,-70}; unary ops; "
                "string<->int in bases 2,8,10,16,36,0 with/without prefix; source literals; int<->float; host-type round "
                "trips through the Rust API; distinct_nontrivial = distinct result values observed",
        "grid_size": len(G),
        "programs": len(cases),
        "case_kinds": kinds,
        "samples": [cases[0][1][:300], cases[-1][1]],
    }
    res.assumptions = ["CPython int is the exact-arithmetic oracle", "left shifts beyond 256 bits and floats beyond 2^1000 are not judged"]
    return res


def api_expected(a, b):
    e = {"str": str(a), "roundtrip": str(a)}
    for name, lo, hi in (("i32", -2 ** 31, 2 ** 31 - 1), ("i64", -2 ** 63, 2 ** 63 - 1), ("u32", 0, 2 ** 32 - 1),
                         ("u64", 0, 2 ** 64 - 1), ("usize", 0, 2 ** 64 - 1), ("isize", -2 ** 63, 2 ** 63 - 1)):
        e["unpack_" + name] = str(a) if lo <= a <= hi else None
        if lo <= a <= hi:
            e["alloc_" + name] = str(a)
    e["add"] = str(a + b)
    e["sub"] = str(a - b)
    e["mul"] = str(a * b)
    e["floor_div"] = str(a // b) if b else None
    e["percent"] = str(a % b) if b else None
    e["bit_and"] = str(a & b)
    e["bit_or"] = str(a | b)
    e["bit_xor"] = str(a ^ b)
    e["minus"] = str(-a)
    e["bit_not"] = str(~a)
    e["equals"] = a == b
    e["compare"] = (a > b) - (a < b)
    e["hash_eq_self"] = True
    return e


def replay(path):
    rep = json.load(open(path))["replay"]
    if "src" not in rep:
        o = vlib.run_sut("c10api", [{"id": 0, "a": rep["a"], "b": rep["b"]}])[0]
        print(json.dumps(o, indent=1))
        exp = api_expected(int(rep["a"]), int(rep["b"]))
        return 0 if all(o.get(k) == v for k, v in exp.items()) else 1
    o = vlib.run_sut("run", [{"id": 0, "steps": [rep["src"]], "opts": {"dialect": "all"}}])[0]
    print(json.dumps({"src": rep["src"], "expected": rep.get("expected"), "got": o}, indent=1))
    st = o.get("steps", [{}])[0]
    if rep.get("expected") is None:
        return 0 if st.get("err") else 1
    return 0 if st.get("out") and st["out"][-1] == rep["expected"] else 1
