"""C19 — IDE answers are well formed (UTF-16 ranges, one response per request, no crash/hang) and go-to-definition
resolves a use to a binding in the scope the running program actually reads."""
import itertools
import json
import re

import vlib

PID = "C19"
URI = "file:///t/doc.star"
URI2 = "file:///t/lib.star"


def u16len(s):
    return len(s.encode("utf-16-le")) // 2


def u16_to_idx(line, col):
    """UTF-16 column -> python string index (None if inside a surrogate pair / beyond end)."""
    u = 0
    for i, ch in enumerate(line):
        if u == col:
            return i
        u += 2 if ord(ch) > 0xFFFF else 1
    return len(line) if u == col else None


def idx_to_u16(line, idx):
    return u16len(line[:idx])


def documents(tier):
    """Yield (text, uses, sites): uses = {tag: (line, idx)} position of the used identifier; sites = {(line, idx): scope}."""
    q = tier == "quick"
    variants = [("", "\n"), ("é", "\n"), ("\U0001F600", "\n"), ("\U0001F600é", "\r\n"), ("", "\r\n")]
    for modx, fparam, flocal, glocal, cv, lp in itertools.product((True, False), (None, "x"), ("none", "before", "after"),
                                                                  ("none", "before", "after"), ("x", "q"), ("x", "q")):
        if not modx and (fparam is None and flocal == "none"):
            continue  # x would be undefined somewhere: static error, nothing to execute
        for T, nl in (variants if not q else variants[:4]):
            lines = []
            if modx:
                lines.append('x = "S0"')
            lines.append(f'def f({"x = " + chr(34) + "S1" + chr(34) if fparam else ""}):')
            if flocal == "before":
                lines.append('    x = "S1"')
            lines.append(f'    emit(["u1{T}", x])')
            lines.append("    def g():")
            if glocal == "before":
                lines.append('        x = "S2"')
            lines.append(f'        emit(["u2{T}", x])')
            # u5: iterable of the FIRST for clause (evaluated in the enclosing scope); u6: iterable of a later clause (sees cv)
            lines.append(f'        r = [emit(["u3{T}", x]) for {cv} in [emit(["u5{T}", x]) or "S3"] for z in [emit(["u6{T}", x]) or 1]]')
            if glocal == "after":
                lines.append('        x = "S2"')
            lines.append("        return r")
            # u7: default value of a lambda parameter (evaluated in the enclosing scope)
            lines.append(f'    h = lambda {lp} = emit(["u7{T}", x]) or "S4": emit(["u4{T}", x])  # {T}')
            lines.append("    g()")
            lines.append("    h()")
            if flocal == "after":
                lines.append('    x = "S1"')
            lines.append("f()")
            if modx:
                lines.append(f'emit(["u0{T}", x])')
            text = nl.join(lines) + nl
            uses, sites = {}, {}
            for li, l in enumerate(lines):
                for m in re.finditer(r'emit\(\["(u\d)[^"]*", (x)\]\)', l):
                    uses[m.group(1)] = (li, m.start(2))
                m = re.match(r'^(\s*)x = "(S\d)"$', l)
                if m:
                    sites[(li, len(m.group(1)))] = m.group(2)
                m = re.match(r'^def f\(x = "S1"\):$', l)
                if m:
                    sites[(li, 6)] = "S1"
                m = re.search(r'for (x) in \[emit', l)
                if m:
                    sites[(li, m.start(1))] = "S3"
                m = re.search(r'lambda (x) = emit', l)
                if m:
                    sites[(li, m.start(1))] = "S4"
            yield text, lines, nl, uses, sites


def check_range(r, lines, what, problems):
    """LSP Range validity against the document under the UTF-16 convention."""
    for k in ("start", "end"):
        p = r[k]
        ln, ch = p["line"], p["character"]
        if ln > len(lines) or (ln == len(lines) and ch != 0):
            problems.append(f"{what}: {k} line {ln} beyond the document ({len(lines)} lines)")
            return False
        if ln < len(lines) and ch > u16len(lines[ln]):
            problems.append(f"{what}: {k} character {ch} beyond line {ln} (UTF-16 length {u16len(lines[ln])})")
            return False
        if ln < len(lines) and u16_to_idx(lines[ln], ch) is None:
            problems.append(f"{what}: {k} character {ch} splits a surrogate pair on line {ln}")
            return False
    if (r["start"]["line"], r["start"]["character"]) > (r["end"]["line"], r["end"]["character"]):
        problems.append(f"{what}: start after end")
        return False
    return True


def slice_range(r, lines):
    if r["start"]["line"] != r["end"]["line"] or r["start"]["line"] >= len(lines):
        return None
    l = lines[r["start"]["line"]]
    a, b = u16_to_idx(l, r["start"]["character"]), u16_to_idx(l, r["end"]["character"])
    if a is None or b is None:
        return None
    return l[a:b]


# ---- model of the known position-encoding defect (known-findings.json, C19:position-encoding): the server adds an incoming
# `character` to the BYTE offset of the line start, and reports outgoing columns in CODE POINTS.  A violation is filed under the
# known finding only when the response is exactly what this model predicts; anything else is a new violation.

def byte_to_idx(line, b):
    """byte offset within the line -> caret index in code points (None: inside a character or beyond the line)."""
    n = 0
    for i, ch in enumerate(line):
        if n == b:
            return i
        n += len(ch.encode("utf-8"))
    return len(line) if n == b else None


def cp_slice(r, lines):
    if r["start"]["line"] != r["end"]["line"] or r["start"]["line"] >= len(lines):
        return None
    l = lines[r["start"]["line"]]
    a, b = r["start"]["character"], r["end"]["character"]
    if a > len(l) or b > len(l) or a > b:
        return None
    return l[a:b]


def cp_range_ok(r, lines):
    for k in ("start", "end"):
        ln, ch = r[k]["line"], r[k]["character"]
        if ln > len(lines) or (ln == len(lines) and ch != 0):
            return False
        if ln < len(lines) and ch > len(lines[ln]):
            return False
    return (r["start"]["line"], r["start"]["character"]) <= (r["end"]["line"], r["end"]["character"])


TOKEN = re.compile(r'"[^"]*"|[A-Za-z_]\w*|\d+|\S')


def ident_touching(line, caret):
    """(start, end, text) of the identifier the caret touches (start <= caret <= end), else None."""
    for m in re.finditer(r"[A-Za-z_]\w*", line):
        if m.start() <= caret <= m.end():
            return m.start(), m.end(), m.group(0)
    return None


def in_string(line, caret):
    return any(m.start() < caret < m.end() for m in re.finditer(r'"[^"]*"', line))


def all_ranges(o, path=""):
    if isinstance(o, dict):
        if set(o.keys()) >= {"start", "end"} and isinstance(o["start"], dict) and "line" in o["start"]:
            yield path, o
        for k, v in o.items():
            yield from all_ranges(v, path + "/" + k)
    elif isinstance(o, list):
        for i, v in enumerate(o):
            yield from all_ranges(v, f"{path}[{i}]")


def run(tier):
    res = vlib.Result(PID, tier, "exploration")
    q = tier == "quick"
    docs = list(documents(tier))
    sessions, meta = [], []
    for di, (text, lines, nl, uses, sites) in enumerate(docs):
        ops = [{"op": "open", "uri": URI, "text": text}]
        for tag, (li, idx) in uses.items():
            col = idx_to_u16(lines[li], idx)
            for off in (0, 1):  # at the identifier start and at its end
                ops.append({"op": "req", "method": "textDocument/definition",
                            "params": {"textDocument": {"uri": URI}, "position": {"line": li, "character": col + off}}})
        sessions.append({"id": len(sessions), "ops": ops})
        meta.append(("uses", di))
    # every position of a subset of documents x {definition, hover, completion}
    sweep_docs = docs[:: (40 if q else 3)]
    for di0, (text, lines, nl, uses, sites) in enumerate(sweep_docs):
        for method in ("textDocument/definition", "textDocument/hover", "textDocument/completion"):
            ops = [{"op": "open", "uri": URI, "text": text}]
            for li in range(len(lines) + 2):
                width = u16len(lines[li]) if li < len(lines) else 0
                for ch in range(width + 2):
                    ops.append({"op": "req", "method": method, "params": {"textDocument": {"uri": URI}, "position": {"line": li, "character": ch}}})
            sessions.append({"id": len(sessions), "ops": ops})
            meta.append(("sweep", docs.index(sweep_docs[di0])))
    # histories over open/change/close with valid and invalid texts, a request after every step
    good = docs[0][0]
    good2 = docs[min(7, len(docs) - 1)][0]
    bad = "def (:\n  x = \U0001F600\n"
    bad2 = "x = [1,\n"
    steps = {"open_good": {"op": "open", "uri": URI, "text": good}, "open_bad": {"op": "open", "uri": URI, "text": bad},
             "chg_good": {"op": "change", "uri": URI, "text": good2}, "chg_bad": {"op": "change", "uri": URI, "text": bad2},
             "chg_empty": {"op": "change", "uri": URI, "text": ""}, "close": {"op": "close", "uri": URI}}
    probe = [{"op": "req", "method": m, "params": {"textDocument": {"uri": URI}, "position": {"line": 3, "character": 25}}}
             for m in ("textDocument/definition", "textDocument/hover", "textDocument/completion")]
    for n in ((1, 2, 3) if q else (1, 2, 3, 4)):
        for seq in itertools.product(steps, repeat=n):
            ops = []
            for s_ in seq:
                ops.append(steps[s_])
                ops += probe
            sessions.append({"id": len(sessions), "ops": ops})
            meta.append(("history", seq))
    # diagnostics whose range must slice (by UTF-16) to the name they mention, with wide characters before them on the line
    for T in ("", "\u00e9", "\U0001F600", "\U0001F600\U0001F600\u00e9"):
        for nl in ("\n", "\r\n"):
            text = nl.join([f'def f(a = "{T}", qq = 1, b = "{T}{T}", rr = 2):', '    return [a, b]', f'def g(s = "{T}"): return 0  # {T}', f'load("lib.star", zz = "{T}lx")', ""])
            sessions.append({"id": len(sessions), "ops": [{"op": "set_file", "uri": URI2, "text": "lx = 1\n"}, {"op": "open", "uri": URI, "text": text}]})
            meta.append(("diag", (T, text)))
    # loads between two documents (definition jumps into the other file)
    lib = 'lx = "L"\ndef lf():\n    return lx\n'
    main = 'load("lib.star", "lx", lf2 = "lf")\ny = lx\nz = lf2()\n'
    ops = [{"op": "set_file", "uri": URI2, "text": lib}, {"op": "open", "uri": URI, "text": main}]
    for li, l in enumerate(main.split("\n")):
        for ch in range(len(l) + 1):
            ops.append({"op": "req", "method": "textDocument/definition", "params": {"textDocument": {"uri": URI}, "position": {"line": li, "character": ch}}})
    sessions.append({"id": len(sessions), "ops": ops})
    meta.append(("load", None))
    vlib.log(f"[C19] {len(docs)} documents, {len(sessions)} sessions, {sum(len(s['ops']) for s in sessions)} protocol operations")
    outs = vlib.run_sut("c19", sessions, shard=max(1, len(sessions) // 64), timeout=3600)
    # execution of every document (scope actually read) + error positions
    runs = vlib.run_sut("run", [{"id": i, "steps": [d[0]], "opts": {"dialect": "all"}} for i, d in enumerate(docs)])
    n_req = 0
    distinct = set()
    for sess, (kind, info), o in zip(sessions, meta, outs):
        if "crash" in o or "panic" in o:
            res.violation(f"C19:server-crash:{kind}", {"session": sess["ops"][:3], "out": str(o)[:600]})
            continue
        if o.get("dead") or isinstance(o.get("server"), dict):
            k = next((i for i, r in enumerate(o["results"]) if "failure" in r), None)
            res.violation(f"C19:no-response-or-server-error:{kind}", {"op": sess["ops"][k] if k is not None else None, "server": o.get("server"),
                                                                      "first_op": sess["ops"][0]})
            continue
        # which text is current at each op
        cur = None
        for op, r in zip(sess["ops"], o["results"]):
            n_req += 1
            if op["op"] in ("open", "change"):
                cur = op["text"]
            if op["op"] == "close":
                cur = None
            if "failure" in r:
                res.violation(f"C19:request-failed:{kind}", {"op": op, "failure": r["failure"]})
                continue
            lines = re.split(r"\r\n|\n", cur)[:-1] if cur else []
            if cur is not None and not cur.endswith("\n"):
                lines = re.split(r"\r\n|\n", cur)
            problems = []
            payload = r.get("diagnostics") or r.get("result")
            for pth, rg in all_ranges(payload):
                if "target" in pth and kind == "load":
                    continue  # range in the other document
                check_range(rg, lines, pth, problems)
            if problems:
                cls = "diagnostic" if "diagnostics" in r else op.get("method", "").split("/")[-1]
                # known defect iff every offending range is valid when its columns are read as code points and the lines it
                # touches contain an astral character (the only case in which the two conventions differ)
                bad = [rg for pth, rg in all_ranges(payload) if not ("target" in pth and kind == "load") and not check_range(rg, lines, pth, [])]
                model = all(cp_range_ok(rg, lines) and any(ord(ch) > 0xFFFF for ln in range(rg["start"]["line"], min(rg["end"]["line"] + 1, len(lines))) for ch in lines[ln])
                            for rg in bad)
                res.violation(f"C19:position-encoding:range:{cls}" if model else f"C19:invalid-range:{cls}", {"op": {k: v for k, v in op.items() if k != "text"},
                                                                                           "text": cur, "problems": problems[:3], "response": payload})
            # the token under the cursor that a definition answer reports (originSelectionRange) must be a whole token of the line
            if op.get("method") == "textDocument/definition" and isinstance(payload, list) and not problems:
                for loc in payload:
                    osr = loc.get("originSelectionRange")
                    if not osr or osr["start"]["line"] >= len(lines):
                        continue
                    ln = lines[osr["start"]["line"]]
                    toks = {m.group(0) for m in TOKEN.finditer(ln)} | {m.group(0)[1:-1] for m in re.finditer(r'"[^"]*"', ln)}
                    s16 = slice_range(osr, lines)
                    if s16 in toks:
                        continue
                    if cp_slice(osr, lines) in toks:
                        res.violation("C19:position-encoding:origin-range", {"text": cur, "position": op["params"]["position"], "originSelectionRange": osr, "slice_utf16": s16})
                    else:
                        res.violation("C19:origin-range-not-a-token", {"text": cur, "position": op["params"]["position"], "originSelectionRange": osr,
                                                                       "slice_utf16": s16, "slice_code_points": cp_slice(osr, lines)})
        if kind == "diag":
            T, text = info
            dl = re.split(r"\r\n|\n", text)
            for dg in o["results"][1].get("diagnostics", {}).get("diagnostics", []):
                names = re.findall(r"`(\w+)`", dg["message"])
                if not names or not dg["message"].startswith("Unused"):
                    continue
                got = slice_range(dg["range"], dl)
                if got != names[-1]:
                    wide = cp_slice(dg["range"], dl) == names[-1]     # exactly the known defect: right in code points
                    res.violation("C19:position-encoding:diagnostic-range" if wide else "C19:diagnostic-range-not-name",
                                  {"text": text, "message": dg["message"], "range": dg["range"], "slice_utf16": got})
        if kind == "uses":
            text, lines, nl, uses, sites = docs[info]
            run_o = runs[info]
            st = run_o["steps"][0] if "steps" in run_o else None
            if st is None:
                res.violation("C19:evaluation-crash", {"text": text, "out": str(run_o)[:300]})
                continue
            read = {}
            for e in st["out"]:
                m = re.match(r'^L#0\[s"(u\d)[^"]*",s"(S\d)"\]$', e)
                if m and m.group(1) not in read:
                    read[m.group(1)] = m.group(2)
            # error position agreement (4)
            if st["err"] and st["err"].get("resolved") and st["err"]["span"]:
                b = st["err"]["span"][1]
                pre = text.encode()[:b].decode()
                want_line = pre.count("\n")
                want_col = len(pre) - (pre.rfind("\n") + 1)
                got = st["err"]["resolved"]
                if (got[0], got[1]) != (want_line, want_col):
                    res.violation("C19:error-position", {"text": text, "span_begin_byte": b, "resolved": got, "expected": [want_line, want_col]})
            ri = 1
            for tag, (li, idx) in uses.items():
                for off in (0, 1):
                    r = o["results"][ri]
                    ri += 1
                    if tag not in read or "result" not in r:
                        continue
                    distinct.add((info, tag))
                    locs = r["result"] if isinstance(r["result"], list) else ([r["result"]] if r["result"] else [])
                    # what the known defect predicts for the INCOMING position: the caret is at byte offset `character`
                    c16 = idx_to_u16(lines[li], idx) + off
                    caret_m = byte_to_idx(lines[li], c16)
                    shifted = caret_m != idx + off          # the defect moves the caret (non-ASCII text before it)
                    touched = ident_touching(lines[li], caret_m) if caret_m is not None else None
                    pos = {"text": text, "use": tag, "position": [li, c16], "scope_read": read[tag]}
                    if shifted and not (touched and touched[0] == idx):
                        # the server looks somewhere else on the line.  Predicted: nothing found if the caret is inside a
                        # character, inside a string literal or touches no identifier; if it touches another identifier the
                        # answer is about that identifier (not judged).  Anything else is a new violation.
                        if caret_m is None or in_string(lines[li], caret_m) or touched is None:
                            if locs:
                                tr0 = locs[0].get("targetSelectionRange") or locs[0].get("range")
                                res.violation("C19:definition-unexpected-under-known-defect", dict(pos, caret_by_defect_model=caret_m, target=tr0))
                            else:
                                res.violation("C19:position-encoding:definition-not-found", pos)
                        continue
                    if not locs:
                        res.violation("C19:definition-not-found", pos)
                        continue
                    tr = locs[0].get("targetSelectionRange") or locs[0].get("range")
                    tl = tr["start"]["line"]
                    ok16 = False
                    if tl < len(lines):
                        tidx = u16_to_idx(lines[tl], tr["start"]["character"])
                        ok16 = slice_range(tr, lines) == "x" and sites.get((tl, tidx)) == read[tag]
                    if ok16:
                        continue
                    # outgoing columns in code points (known defect) - only different when an astral character precedes the target
                    okcp = tl < len(lines) and cp_slice(tr, lines) == "x" and sites.get((tl, tr["start"]["character"])) == read[tag]
                    if okcp:
                        res.violation("C19:position-encoding:definition-range", dict(pos, target=tr))
                        continue
                    ident = slice_range(tr, lines)
                    if ident != "x" and cp_slice(tr, lines) != "x":
                        res.violation("C19:definition-range-not-identifier", dict(pos, target=tr, slice_utf16=ident))
                    else:
                        tidx = u16_to_idx(lines[tl], tr["start"]["character"]) if ident == "x" else tr["start"]["character"]
                        res.violation("C19:definition-wrong-scope", dict(pos, resolved_to_scope=sites.get((tl, tidx)), program_reads_scope=read[tag], target=tr))
    res.coverage = {
        "evaluations": n_req,
        "distinct_nontrivial": len(distinct),
        "rule": "documents: every combination of {module binding, f parameter, f local before/after/none, g local before/after/none, "
                "comprehension variable x|q, lambda parameter x|q} of one name across 5 nested scopes, each binding carrying its scope "
                "tag and each use emitting what it reads, x text variants {ASCII, BMP char, astral char, astral+BMP with CRLF, CRLF} "
                "placed BEFORE the identifier on the same line; go-to-definition at the start and end of every use must land on an "
                "identifier `x` (sliced by UTF-16) bound in the scope the executed program read; every (line, character) incl. one "
                "past each line end and past the last line x {definition, hover, completion} on a subset of documents; all sequences "
                "of <=3 (thorough: 4) notifications from {open valid/invalid, change valid/invalid/empty, close} with the three requests after every "
                "step; a two-document load case. Every request gets exactly one response within 10 s, the server thread never "
                "panics, every Range in every response and in publishDiagnostics is inside the current document under UTF-16. "
                "distinct_nontrivial = judged (document, use) pairs",
        "documents": len(docs), "sessions": len(sessions),
        "samples": [docs[3][0], docs[len(docs) // 2][0]],
    }
    res.assumptions = ["requests the server does not advertise (documentSymbol, ...) are not sent", "the client speaks UTF-16 (protocol default)"]
    return res


def replay(path):
    rep = json.load(open(path))["replay"]
    print(json.dumps(rep, indent=1, ensure_ascii=False)[:3000])
    return 1
