"""C05 — parsing is total: exhaustive short texts / token sequences, edit neighbourhoods of a corpus,
nesting ladders, line-ending matrix; all dialect corners, full dialect lattice on accepted inputs."""
import glob
import itertools
import json
import re
import subprocess

import vlib

PID = "C05"
T1 = ["\"", "'", "\\", "\n", "\r", "\t", " ", "#", "{", "}", "!", "f", "r", "b", "x", "0", "\u00e9"]
T2 = ["a", "1", "\"s\"", "\n", "\n  ", "(", ")", "[", "]", "{", "}", ",", ":", "=", "+", "-", "*", "**", "/", ".", "->",
      "...", "def ", "lambda ", "load", "not ", " in ", " if ", " else ", " for ", "return ", "pass", ";", "==", "+=",
      "f\"{a}\"", "0x", "1.", "|", "\\\n", "and ", "break", "  "]

SEEDS = [
    "x = 1\n", "x, y = y, x\n", "def f(a, b=1, *c, **d):\n    return a\n", "def f(a, /, b, *, c):\n    pass\n",
    "f = lambda x, y=2: x + y\n", "load(\"m.star\", \"a\", b=\"c\")\n", "for i in range(3):\n    if i:\n        break\n    else:\n        continue\n",
    "x = [i for i in y if i]\n", "d = {k: v for k, v in z}\n", "x = a if b else c\n", "x = not a in b\n", "x = a[1:2:3]\n",
    "x = a[1, 2]\n", "x = f(1, b=2, *c, **d)\n", "x = a.b.c(1)[2]\n", "x += 1\n", "x: int = 1\n", "def f(x: int) -> str:\n    pass\n",
    "x = f\"a{b}c{d}\"\n", "x = \"a\\n\\\"b\\x41\\u00e9\"\n", "x = 'a' \"b\"\n", "x = '''a\nb'''\n", "x = r\"a\\b\"\n", "x = b\"ab\"\n",
    "x = 0x1F + 0o17 + 0b11 + 1.5e3\n", "x = (1,)\n", "x = ()\n", "x = [1, 2,]\n", "x = {1: 2, 3: 4,}\n", "x = -+~1\n",
    "x = 1 << 2 >> 3 | 4 & 5 ^ 6\n", "x = 1 < 2\n", "x = a and b or not c\n", "if a:\n    pass\nelif b:\n    pass\nelse:\n    pass\n",
    "def f():\n    \"\"\"doc\"\"\"\n    return\n", "x = 1 # comment\n# another\n", "x = (1 +\n     2)\n", "x = 1 + \\\n    2\n",
    "pass; pass\n", "x = [\n  1,\n  2,\n]\n", "def f():\n  def g():\n    return 1\n  return g\n", "x = a.b = 1\n",
    "x = ...\n", "x = lambda: (yield)\n", "f(*a, *b)\n", "x = 1 if 2 else 3 if 4 else 5\n", "x = [a for b in c for d in e if f if g]\n",
    "x = typing.Callable[[int], str]\n", "x = 1\n# starlark-lint-disable unused\n", "x = 1\n# starlark-lint-disable unused",
    "# starlark-lint-disable a, b\nx = 1 # starlark-lint-disable c", "def f():\n    # starlark-lint-disable x\n    pass # c\n#", "#", "# \u00e9", "#\n#\n", "x = '\\1\u00e9\\12\\123\u00e9'\n",
    "x = b'\\7\u00e9'\n", "x = f'{a}\\1\u00e9{{}}'\n", "f'}'", "f'{'", "x = f'{\u00e9}'\n", "x = int | None\n", "return 1\n", "x = \"\u00e9\U0001F600\"\n", "\tx = 1\n", "x = 1\r\ny = 2\r\n",
]


def tokenize(src):
    return re.findall(r'f?r?b?"(?:[^"\\\n]|\\.)*"|\'(?:[^\'\\\n]|\\.)*\'|[A-Za-z_][A-Za-z_0-9]*|\d+\.?\d*|\n[ \t]*|[ \t]+|\*\*|//|<<|>>|[<>=!+\-*/%&|^]=|->|\.\.\.|.', src, re.S)


def edits1(toks, alphabet):
    n = len(toks)
    for i in range(n):
        yield toks[:i] + toks[i + 1:]
        yield toks[:i] + [toks[i], toks[i]] + toks[i + 1:]
        for a in alphabet:
            yield toks[:i] + [a] + toks[i + 1:]
    for i in range(n + 1):
        for a in alphabet:
            yield toks[:i] + [a] + toks[i:]


def corpus():
    seeds = list(SEEDS)
    for f in sorted(glob.glob("/repo/starlark_syntax/src/syntax/grammar_tests/*.golden") +
                    glob.glob("/repo/starlark_syntax/src/syntax/def_tests/*.golden")):
        txt = open(f).read()
        for m in re.finditer(r"^Program:\n(.*?)\n\n(?:Error:|Ast|Tokens|Def|Module)", txt, re.S | re.M):
            p = m.group(1)
            if 0 < len(p) < 400:
                seeds.append(p + "\n")
    return list(dict.fromkeys(seeds))


def ladders():
    out = []
    for d in list(range(1, 41)) + [50, 64, 100, 128, 150, 199, 200]:
        out += ["(" * d + "1" + ")" * d, "[" * d + "1" + "]" * d, "{1:" * d + "1" + "}" * d, "lambda: " * d + "1",
                "-" * d + "1", "not " * d + "1", "1 if 1 else " * d + "1", "x = " + "a." * d + "b", "f(" * d + ")" * d,
                "x" + "[0]" * d, "(" * d, ")" * d, "([{" * d, "(" * d + "1" + "]" * d, "~+-" * d + "x", "1 + (" * d + "2" + ")" * d,
                "".join("    " * i + "if 1:\n" for i in range(d)) + "    " * d + "pass\n",
                "".join("  " * i + "def f():\n" for i in range(d)) + "  " * d + "return 1\n",
                "".join("    " * i + "for x in y:\n" for i in range(d)) + "    " * d + "pass\n",
                "if 1:\n    pass\n" + "elif 2:\n    pass\n" * d + "else:\n    pass\n",
                "x = " + "[a for a in " * d + "b" + "]" * d, "f\"" + "{" * d + "a" + "}" * d + "\"", "f\"{" + "(" * d + "a" + ")" * d + "}\"",
                "x = (" + "1, " * d + ")", "x = " + " + ".join(["1"] * d), "x = " + " and ".join(["a"] * d),
                "\"" + "\\" * d + "\"", "\"" * d, "'''" + "\n" * d + "'''", "#" * d, "\n" * d, "\\\n" * d + "1", " " * d + "1"]
    return out


def run(tier):
    res = vlib.Result(PID, tier, "exploration")
    q = tier == "quick"
    jobs = []

    def job(**kw):
        kw["id"] = len(jobs)
        jobs.append(kw)

    # T1: all texts over the byte alphabet
    for L in range(0, (5 if q else 6) + 1):
        if L <= 3:
            job(job="t1", len=L)
        else:
            for f in range(len(T1)):
                job(job="t1", len=L, first=f)
    for pre in ['f"', "b'", 'r"""', '"""', "f'''", "x = ", "def f(:\n", '"\\']:
        for f in range(len(T1)):
            job(job="t1", len=4 if q else 5, first=f, prefix=pre)
    # T2: all token sequences, full dialect lattice on accepted ones
    for L in range(0, (3 if q else 4) + 1):
        if L <= 2:
            job(job="t2", len=L, lattice=True)
        else:
            for f in range(len(T2)):
                job(job="t2", len=L, first=f, lattice=True)
    # T3: edit neighbourhoods
    seeds = corpus()
    ins = []
    for s in seeds:
        toks = tokenize(s)
        ins.append(s)
        for e in edits1(toks, T2):
            ins.append("".join(e))
        chars = list(s)
        if len(chars) <= 120:
            for e in edits1(chars, T1):
                ins.append("".join(e))
    if not q:
        for s in SEEDS:
            toks = tokenize(s)
            if len(toks) <= 10:
                for e1 in edits1(toks, T2[:30]):
                    for e2 in edits1(e1, T2[:12]):
                        ins.append("".join(e2))
    ins = list(dict.fromkeys(ins))
    for i in range(0, len(ins), 4000):
        job(job="list", inputs=ins[i:i + 4000], lattice=True)
    # T4: nesting ladders (one job each: a crash is attributable)
    lad = ladders()
    for i in range(0, len(lad), 40):
        job(job="list", inputs=lad[i:i + 40], lattice=False)
    # T5: line-ending / continuation matrix on all T2 programs of length <= 3
    t5 = []
    for L in (1, 2, 3):
        for seq in itertools.product(T2, repeat=L):
            s = "".join(seq)
            if "\n" in s:
                for rep in ("\r\n", "\\\n", "\\\r\n", "\n\t", "\n #c\n", "\r"):
                    t5.append(s.replace("\n", rep))
    t5 = list(dict.fromkeys(t5))
    for i in range(0, len(t5), 4000):
        job(job="list", inputs=t5[i:i + 4000], lattice=False)

    vlib.log(f"[C05] {len(jobs)} jobs; T3 inputs {len(ins)}, T4 {len(lad)}, T5 {len(t5)}")
    outs = vlib.run_sut("c05", jobs, shard=1, timeout=7200)
    inputs = parses = trees = 0
    accepted = [0, 0, 0, 0]
    for j, o in zip(jobs, outs):
        if "crash" in o:
            inp = find_crash(j)
            res.violation("C05:crash", {"job": {k: v for k, v in j.items() if k != "inputs"}, "input": inp, "crash": o["crash"],
                                        "stderr": o.get("stderr", "")[-300:]})
            continue
        inputs += o["inputs"]
        parses += o["parses"]
        trees += o["distinct_trees"]
        accepted = [a + b for a, b in zip(accepted, o["accepted"])]
        for v in o["violations"]:
            what = v["what"]
            cls = what.split(":")[0].split(" span")[0][:40]
            res.violation(f"C05:{cls}", {"input": v["input"], "dialect": v["dialect"], "what": what})
    res.coverage = {
        "evaluations": parses,
        "inputs": inputs,
        "distinct_nontrivial": trees,
        "rule": "T1 every string of length <= N over a 17-symbol lexer-derived alphabet (plus 8 opener prefixes); T2 every "
                "sequence of <= M of 43 tokens; T3 every 1-token / 1-char edit (delete, duplicate, substitute, insert) of a "
                "corpus (hand seeds + the repository's golden programs), 2-edit on short seeds in thorough; T4 nesting ladders "
                "to depth 200; T5 line-ending/continuation matrix. Each under dialect corners none<=std<=ext<=all, accepted "
                "T2/T3 inputs under all 384 parser-relevant dialects with every single-switch monotonicity edge. "
                "distinct_nontrivial = sum over jobs of distinct accepted trees",
        "accepted_by_corner": dict(zip(["none", "std", "ext", "all"], accepted)),
        "jobs": len(jobs),
        "samples": ["f\"{\u00e9", "def f(a, /, b, *, c):\n    pass\n", lad[5]],
    }
    res.assumptions = ["inputs beyond the stated lengths / edit distances are not covered", "8 MiB main-thread stack"]
    return res


def find_crash(j):
    rc, so, se = vlib.run_sut_once(["c05"], json.dumps(dict(j, trace=True)) + "\n", timeout=3600)
    last = [l for l in se.split("\n") if l.startswith("INPUT ")]
    return last[-1][6:] if last else None


def replay(path):
    rep = json.load(open(path))["replay"]
    inp = rep["input"]
    if inp is None:
        return 1
    if inp.startswith('"') and "job" in rep:
        inp = json.loads(inp) if False else eval(inp)  # trace prints a Rust debug string; close enough for ASCII
    o = vlib.run_sut("c05", [{"id": 0, "job": "list", "inputs": [inp], "lattice": True}])[0]
    print(json.dumps(o, indent=1))
    return 1 if "crash" in o or o.get("violations") else 0
