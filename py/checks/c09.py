"""C09 — equality / hashing / ordering coherence: all pairs of a catalogue that builds the same abstract
values through different representations and construction paths (unfrozen and frozen+loaded)."""
import json
import math

import vlib

PID = "C09"


class S:  # struct model
    def __init__(self, **kw):
        self.kw = kw


NAN = float("nan")
INF = float("inf")

# (starlark expression, python model value)
CAT = [
    ("0", 0), ("-0", 0), ("0.0", 0.0), ("-0.0", -0.0), ("1", 1), ("1.0", 1.0), ("5 // 5", 1), ("int('1')", 1), ("3 - 2.0", 1.0),
    ("True", True), ("False", False), ("None", None), ("-1", -1), ("-1.0", -1.0), ("2.5", 2.5), ("5 / 2", 2.5), ("-2.5", -2.5),
    ("1000", 1000), ("1e3", 1000.0), ("2147483647", 2 ** 31 - 1), ("2147483648", 2 ** 31), ("1 << 31", 2 ** 31),
    ("2147483648.0", 2.0 ** 31), ("-2147483648", -2 ** 31), ("-(1 << 31)", -2 ** 31), ("-2147483649", -2 ** 31 - 1),
    ("-2147483648.0", -2.0 ** 31), ("int('2147483648')", 2 ** 31), ("2147483647 + 1", 2 ** 31), ("4294967296", 2 ** 32),
    ("9007199254740992", 2 ** 53), ("9007199254740992.0", 2.0 ** 53), ("1 << 53", 2 ** 53), ("9007199254740993", 2 ** 53 + 1),
    ("(1 << 53) + 1", 2 ** 53 + 1), ("9007199254740991", 2 ** 53 - 1), ("9007199254740991.0", 2.0 ** 53 - 1),
    ("9007199254740994", 2 ** 53 + 2), ("9007199254740994.0", 2.0 ** 53 + 2), ("float(9007199254740993)", float(2 ** 53 + 1)),
    ("9223372036854775807", 2 ** 63 - 1), ("9223372036854775808", 2 ** 63), ("1 << 63", 2 ** 63), ("9223372036854775808.0", 2.0 ** 63),
    ("-9223372036854775808", -2 ** 63), ("-9223372036854775808.0", -2.0 ** 63), ("-9223372036854775809", -2 ** 63 - 1),
    ("18446744073709551616", 2 ** 64), ("1 << 64", 2 ** 64), ("18446744073709551616.0", 2.0 ** 64), ("(1 << 64) + 1", 2 ** 64 + 1),
    ("(1 << 64) - (1 << 64) + 7", 7), ("7", 7), ("7.0", 7.0), ("1 << 100", 2 ** 100), ("float(1 << 100)", 2.0 ** 100),
    ("1e300", 1e300), ("int(1e300)", int(1e300)), ("float('nan')", NAN), ("float('inf')", INF), ("float('-inf')", -INF),
    ("-float('inf')", -INF), ("float('inf') - float('inf')", NAN), ("0.1 + 0.2", 0.1 + 0.2), ("0.3", 0.3),
    ('""', ""), ('"a"', "a"), ('"ab"', "ab"), ('"a" + "b"', "ab"), ('"xab"[1:]', "ab"), ('"%s" % "ab"', "ab"),
    ('"{}b".format("a")', "ab"), ('"".join(["a", "b"])', "ab"), ('intern("ab")', "ab"), ('host_str("ab")', "ab"), ('host_str("\\u00e9")', "é"), ('host_str("a")', "a"), ('host_str("")', ""),
    ('host_str("\\U0001F600")', "\U0001F600"), ('host_str("x\\u0416")[1]', "Ж"),
    ('"AB".lower()', "ab"), ('str(12)', "12"), ('"12"', "12"), ('"1" + "2"', "12"), ('"b"', "b"), ('"B"', "B"), ('"a\\u00e9"', "aé"),
    ('"a" + "\\u00e9"', "aé"), ('"\\u00e9"', "é"), ('"a\\u00e9"[1]', "é"), ('"\\u00c9".lower()', "é"), ('"%s" % "\\u00e9"', "é"),
    ('"".join(["\\u00e9"])', "é"), ('"a"[0]', "a"), ('"A".lower()', "a"), ('"\\U0001F600"[0]', "\U0001F600"), ('"x\\u0416"[1:]', "Ж"), ('"\\u0416"', "Ж"), ('"\\U0001F600"', "\U0001F600"), ('"ab" * 1', "ab"), ('"ab"[:]', "ab"), ('"abc"[:-1]', "ab"), ('"1"', "1"),
    ("()", ()), ("(1,)", (1,)), ("(1, 2)", (1, 2)), ("tuple([1, 2])", (1, 2)), ("(1,) + (2,)", (1, 2)), ("(1.0, 2)", (1.0, 2)),
    ("(1, (2, 3))", (1, (2, 3))), ("(1, (2, 3.0))", (1, (2, 3.0))), ('("a", 1)', ("a", 1)), ('("a",) + (1,)', ("a", 1)),
    ("(2, 1)", (2, 1)), ("(1, 2, 3)[:2]", (1, 2)), ("(9223372036854775808,)", (2 ** 63,)), ("(9223372036854775808.0,)", (2.0 ** 63,)),
    ("(float('nan'),)", (NAN,)), ("(1, [2])", (1, [2])), ("(None,)", (None,)), ("(True,)", (True,)), ("((),)", ((),)),
    ("[]", []), ("[1, 2]", [1, 2]), ("[1] + [2]", [1, 2]), ("[i for i in (1, 2)]", [1, 2]), ("list((1, 2))", [1, 2]), ("[1.0, 2]", [1.0, 2]),
    ("[2, 1]", [2, 1]), ("[[1], [2]]", [[1], [2]]), ("[(1, 2)]", [(1, 2)]), ("[1, 2][:]", [1, 2]), ('["ab"]', ["ab"]), ('["a" + "b"]', ["ab"]),
    ("{}", {}), ("{1: 2}", {1: 2}), ("{1.0: 2}", {1.0: 2}), ("{1: 2.0}", {1: 2.0}), ("{1: 2, 3: 4}", {1: 2, 3: 4}), ("{3: 4, 1: 2}", {3: 4, 1: 2}),
    ("dict([(1, 2)])", {1: 2}), ('{"ab": 1}', {"ab": 1}), ('{"a" + "b": 1}', {"ab": 1}), ("{(1, 2): 3}", {(1, 2): 3}),
    ("{k: k + 1 for k in [1]}", {1: 2}), ("{1: [2]}", {1: [2]}), ("{1: {2: 3}}", {1: {2: 3}}),
    ("set()", frozenset()), ("set([1, 2])", frozenset([1, 2])), ("set([2, 1])", frozenset([1, 2])), ("set([1.0, 2])", frozenset([1.0, 2])),
    ('set(["ab"])', frozenset(["ab"])), ("set([(1, 2)])", frozenset([(1, 2)])), ("set([1])", frozenset([1])),
    ("struct()", S()), ("struct(a = 1)", S(a=1)), ("struct(a = 1.0)", S(a=1.0)), ("struct(a = 1, b = 2)", S(a=1, b=2)),
    ("struct(b = 2, a = 1)", S(a=1, b=2)), ("struct(a = [1])", S(a=[1])), ("struct(a = (1, 2))", S(a=(1, 2))), ("struct(a = struct(a = 1))", S(a=S(a=1))),
    ("range(3)", range(3)), ("range(0, 3)", range(3)), ("range(0, 3, 1)", range(3)), ("range(0)", range(0)), ("range(5, 5)", range(0)),
    ("range(0, 4, 2)", range(0, 4, 2)), ("range(0, 3, 2)", range(0, 3, 2)), ("range(1, 0)", range(0)),
]


def kind(v):
    if v is None:
        return "none"
    if isinstance(v, bool):
        return "bool"
    if isinstance(v, (int, float)):
        return "num"
    return type(v).__name__


def model_eq(a, b):
    ka, kb = kind(a), kind(b)
    if ka != kb:
        return False
    if ka == "num":
        # Starlark spec: all NaN values compare equal to each other and greater than any other float
        na, nb = isinstance(a, float) and math.isnan(a), isinstance(b, float) and math.isnan(b)
        if na or nb:
            return na and nb
        return a == b  # CPython compares int/float exactly
    if ka in ("tuple", "list"):
        return len(a) == len(b) and all(model_eq(x, y) for x, y in zip(a, b))
    if ka == "dict":
        if len(a) != len(b):
            return False
        for k, v in a.items():
            m = [v2 for k2, v2 in b.items() if model_eq(k, k2)]
            if len(m) != 1 or not model_eq(v, m[0]):
                return False
        return True
    if ka == "frozenset":
        return len(a) == len(b) and all(any(model_eq(x, y) for y in b) for x in a)
    if ka == "S":
        return set(a.kw) == set(b.kw) and all(model_eq(a.kw[k], b.kw[k]) for k in a.kw)
    if ka == "range":
        return list(a) == list(b)
    return a == b


def has_nan(v):
    return False


def _unused_has_nan(v):
    if isinstance(v, float):
        return math.isnan(v)
    if isinstance(v, (tuple, list, frozenset)):
        return any(has_nan(x) for x in v)
    if isinstance(v, dict):
        return any(has_nan(k) or has_nan(x) for k, x in v.items())
    if isinstance(v, S):
        return any(has_nan(x) for x in v.kw.values())
    return False


def hashable(v):
    k = kind(v)
    if k in ("list", "dict", "frozenset"):
        return False
    if k == "tuple":
        return all(hashable(x) for x in v)
    if k == "S":
        return all(hashable(x) for x in v.kw.values())
    return True


def model_cmp(a, b):
    """-1/0/1 or None if not orderable / undefined (nan)."""
    ka, kb = kind(a), kind(b)
    if ka != kb:
        return None
    if ka == "num":
        na, nb = isinstance(a, float) and math.isnan(a), isinstance(b, float) and math.isnan(b)
        if na or nb:
            return (na > nb) - (na < nb)
        return (a > b) - (a < b)
    if ka in ("str", "bool"):
        return (a > b) - (a < b)
    if ka in ("tuple", "list"):
        for x, y in zip(a, b):
            c = model_cmp(x, y)
            if c is None:
                return None
            if c:
                return c
        return (len(a) > len(b)) - (len(a) < len(b))
    return None


def rounded_cmp(a, b):
    """The implementation's documented-by-code behaviour for MIXED int/float pairs: the int is rounded to f64 first."""
    if kind(a) == "num" and kind(b) == "num" and isinstance(a, float) != isinstance(b, float):
        fa, fb = float(a), float(b)
        na, nb = math.isnan(fa), math.isnan(fb)
        if na or nb:
            return (na > nb) - (na < nb)
        return (fa > fb) - (fa < fb)
    return None


def is_rounding_pair(a, b):
    """Mixed int/float pair whose exact comparison differs from the comparison after rounding the int to f64."""
    r = rounded_cmp(a, b)
    return r is not None and r != model_cmp(a, b)


def extend_catalogue():
    """Thorough tier: every scalar construction that is not part of an int/float rounding pair, wrapped in each container kind
    (element of a tuple / list, dict value, dict key, set element, struct field): equality, hashing and order of containers must
    follow their elements through every representation."""
    scal = [(e, v) for e, v in CAT if kind(v) in ("num", "str", "bool", "none")]
    nums = [v for _, v in scal if kind(v) == "num"]
    ext = []
    for e, v in scal:
        if kind(v) == "num" and any(is_rounding_pair(v, w) for w in nums):
            continue
        ext += [(f"({e},)", (v,)), (f"[{e}]", [v]), (f'{{"k": {e}}}', {"k": v}), (f"struct(a = {e})", S(a=v)), (f"(0, [{e}])", (0, [v]))]
        if not (isinstance(v, float) and math.isnan(v)):
            ext += [(f"{{{e}: 1}}", {v: 1}), (f"set([{e}])", frozenset([v]))]
    return ext


def run(tier):
    res = vlib.Result(PID, tier, "exploration")
    if tier == "thorough":
        global CAT
        CAT = CAT + [x for x in extend_catalogue() if x[0] not in {e for e, _ in CAT}]
    n = len(CAT)
    lib = "FV = [\n" + "".join(f"    {e},\n" for e, _ in CAT) + "]\n"
    body = ("C = [\n" + "".join(f"    {e},\n" for e, _ in CAT) + "]\n"
            "H = [not fails(lambda: {c: 1}) for c in C]\n")
    progs = {}
    # runtime matrices, unfrozen x unfrozen and unfrozen x frozen and frozen x frozen
    for name, (X, Y, ld) in {"uu": ("C", "C", ""), "uf": ("C", "FV", 'load("lib.star", "FV")\n'),
                             "ff": ("FV", "FV", 'load("lib.star", "FV")\n')}.items():
        progs[name] = ld + body + (
            f"emit(H)\n"
            f"emit([fails(lambda: hash(c)) for c in C])\n"
            f"for a in {X}:\n    emit([a == b for b in {Y}])\n"
            f"for a in {X}:\n    emit([a != b for b in {Y}])\n"
            f"for a in {X}:\n    emit([(-2 if fails(lambda: a < b) else (1 if a < b else 0) + (2 if a > b else 0) + (4 if a <= b else 0) + (8 if a >= b else 0)) for b in {Y}])\n"
            f"for i in range(len(C)):\n    emit([{{{X}[i]: 1}}.get(b, 0) if H[i] and H[j] else -1 for j, b in enumerate({Y})])\n"
            f"for i in range(len(C)):\n    emit([(b in set([{X}[i]])) if H[i] and H[j] else -1 for j, b in enumerate({Y})])\n"
            f"for i in range(len(C)):\n    emit([(b in [{X}[i]], b in ({X}[i],)) for b in {Y}])\n"
            f"big = {{}}\nfor i, a in enumerate({X}):\n    if H[i]:\n        big.setdefault(a, []).append(i)\nemit(list(big.values()))\n"
            f"emit([big.get(b) if H[j] else -1 for j, b in enumerate({Y})])\n"
        )
    specs = [{"id": i, "libs": [["lib.star", lib]], "steps": [p], "opts": {"dialect": "all"}} for i, p in enumerate(progs.values())]
    # literal (compile-time foldable) forms for numeric/string pairs
    lit_idx = [i for i, (e, v) in enumerate(CAT) if kind(v) in ("num", "str", "bool", "none", "tuple")]
    lit_lines = []
    for i in lit_idx:
        lit_lines.append("emit([" + ", ".join(f"({CAT[i][0]}) == ({CAT[j][0]})" for j in lit_idx) + "])")
    specs.append({"id": len(specs), "steps": ["\n".join(lit_lines) + "\n"], "opts": {"dialect": "all"}})
    # mixed: runtime value (from the list) against each construction written in place (constant operand visible to the compiler)
    mixed_lines = ["C = [\n" + "".join(f"    {e},\n" for e, _ in CAT) + "]"]
    for j in range(n):
        mixed_lines.append(f"emit([(a == ({CAT[j][0]}), ({CAT[j][0]}) == a, a != ({CAT[j][0]})) for a in C])")
    specs.append({"id": len(specs), "steps": ["\n".join(mixed_lines) + "\n"], "opts": {"dialect": "all"}})
    mixed_def = ["C = [\n" + "".join(f"    {e},\n" for e, _ in CAT) + "]", "def mx():"]
    for j in range(n):
        mixed_def.append(f"    emit([(a == ({CAT[j][0]}), ({CAT[j][0]}) == a, a != ({CAT[j][0]})) for a in C])")
    mixed_def.append("mx()")
    specs.append({"id": len(specs), "steps": ["\n".join(mixed_def) + "\n"], "opts": {"dialect": "all"}})
    for defn in (False, True):
        ind = "    " if defn else ""
        ml = ['load("lib.star", "FV")'] + (["def mx():"] if defn else [])
        for j in range(n):
            ml.append(f"{ind}emit([(a == ({CAT[j][0]}), ({CAT[j][0]}) == a, a != ({CAT[j][0]})) for a in FV])")
        if defn:
            ml.append("mx()")
        specs.append({"id": len(specs), "libs": [["lib.star", lib]], "steps": ["\n".join(ml) + "\n"], "opts": {"dialect": "all"}})
    # large sorts (thresholds of the sort implementation): stability with many ties
    big = ("def st(n, m):\n    l = [((i * 37) % m, i) for i in range(n)]\n    s1 = sorted(l, key = lambda p: p[0])\n"
           "    ok = all([s1[i][0] < s1[i + 1][0] or (s1[i][0] == s1[i + 1][0] and s1[i][1] < s1[i + 1][1]) for i in range(n - 1)])\n"
           "    s2 = sorted(l, key = lambda p: p[0], reverse = True)\n"
           "    ok2 = all([s2[i][0] > s2[i + 1][0] or (s2[i][0] == s2[i + 1][0] and s2[i][1] < s2[i + 1][1]) for i in range(n - 1)])\n"
           "    mixed = sorted([float(i % m) if i % 2 else i % m for i in range(n)])\n"
           "    ok3 = all([mixed[i] <= mixed[i + 1] for i in range(n - 1)]) and [type(x) for x in mixed] == [type(x) for x in sorted(mixed)]\n"
           "    return [ok, ok2, ok3, sorted(s1) == sorted(l)]\n"
           "emit([st(n, m) for n in [0, 1, 2, 15, 16, 17, 20, 21, 22, 31, 32, 33, 34, 47, 64, 65, 100, 257] for m in [1, 2, 3, 7]])\n")
    specs.append({"id": len(specs), "steps": [big], "opts": {"dialect": "all"}})
    # sorting: stability / permutation / order, per orderable group
    def no_rounding(i):
        return not any(is_rounding_pair(CAT[i][1], CAT[j][1]) for j in range(n) if kind(CAT[j][1]) == "num")

    groups = {"num": [i for i, (e, v) in enumerate(CAT) if kind(v) == "num" and no_rounding(i)],
              "num_all": [i for i, (e, v) in enumerate(CAT) if kind(v) == "num"],
              "str": [i for i, (e, v) in enumerate(CAT) if kind(v) == "str"],
              "tuple": [i for i, (e, v) in enumerate(CAT) if kind(v) == "tuple" and not has_nan(v) and model_cmp(v, v) == 0
                        and all(model_cmp(v, CAT[j][1]) is not None for j in range(n) if kind(CAT[j][1]) == "tuple" and not has_nan(CAT[j][1]))],
              "list": [i for i, (e, v) in enumerate(CAT) if kind(v) == "list" and all(model_cmp(v, CAT[j][1]) is not None for j in range(n) if kind(CAT[j][1]) == "list")]}
    sort_prog = body + "".join(
        f"P = [(C[i], i) for i in {idx}]\nemit([p[1] for p in sorted(P, key = lambda p: p[0])])\n"
        f"emit([p[1] for p in sorted(P, key = lambda p: p[0], reverse = True)])\n"
        f"emit([p[1] for p in sorted(list(reversed(P)), key = lambda p: p[0])])\n"
        f"emit(sorted([C[i] for i in {idx}]) == [p[0] for p in sorted(P, key = lambda p: p[0])])\n"
        f"emit([max([C[i] for i in {idx}]) == sorted([C[i] for i in {idx}])[-1], min([C[i] for i in {idx}]) == sorted([C[i] for i in {idx}])[0]])\n"
        for idx in groups.values())
    specs.append({"id": len(specs), "steps": [sort_prog], "opts": {"dialect": "all"}})
    outs = vlib.run_sut("run", specs, shard=1)
    checks = 0

    def viol(cls, i, j, what, mode):
        a, b = CAT[i][0], (CAT[j][0] if j is not None else None)
        res.violation(f"C09:{cls}:{kind(CAT[i][1])}" + (f"-{kind(CAT[j][1])}" if j is not None else ""),
                      {"a": a, "b": b, "mode": mode, "what": what})

    def parse_row(s):
        return s[4:-1].split(",") if s.startswith("L#") else None

    for (mode, _), o in zip(progs.items(), outs[:3]):
        if "crash" in o or "panic" in o or o["steps"][0]["err"]:
            res.violation("C09:crash", {"mode": mode, "out": str(o)[:1500]})
            continue
        out = o["steps"][0]["out"]
        H = [x == "T" for x in parse_row(out[0])]
        hf = [x == "T" for x in parse_row(out[1])]
        for i in range(n):
            checks += 1
            if not H[i] and hashable(CAT[i][1]) and kind(CAT[i][1]) != "range":
                viol("hashability", i, None, f"usable as dict key: {H[i]}, model: {hashable(CAT[i][1])}", mode)
            if H[i] and not hashable(CAT[i][1]):
                viol("hashability", i, None, "a value containing a mutable container is usable as a dict key", mode)
            if hf[i] == H[i] and kind(CAT[i][1]) == "str":
                viol("hash-builtin", i, None, "hash() fails on a string", mode)
        eq = [parse_row(r) for r in out[2:2 + n]]
        ne = [parse_row(r) for r in out[2 + n:2 + 2 * n]]
        cm = [parse_row(r) for r in out[2 + 2 * n:2 + 3 * n]]
        dg = [parse_row(r) for r in out[2 + 3 * n:2 + 4 * n]]
        sg = [parse_row(r) for r in out[2 + 4 * n:2 + 5 * n]]
        ing = out[2 + 5 * n:2 + 6 * n]
        for i in range(n):
            for j in range(n):
                checks += 1
                a, b = CAT[i][1], CAT[j][1]
                me = model_eq(a, b)
                e = eq[i][j] == "T"
                if e != me:
                    if is_rounding_pair(a, b) and e == (rounded_cmp(a, b) == 0):
                        viol("int-float-rounding:eq", i, j, f"== gives {e}, exact values equal: {me}", mode)
                    else:
                        viol("eq", i, j, f"== gives {e}, abstract values equal: {me}", mode)
                    continue
                if (ne[i][j] == "T") == e:
                    viol("ne", i, j, "!= is not the negation of ==", mode)
                if (eq[j][i] == "T") != e and mode != "uf":
                    viol("eq-symmetry", i, j, "a == b differs from b == a", mode)
                c = int(cm[i][j][1:])
                mc = model_cmp(a, b)
                if mc is not None:
                    want = {-1: 1 + 4, 0: 4 + 8, 1: 2 + 8}[mc]
                    if c != want:
                        if is_rounding_pair(a, b) and c == {-1: 1 + 4, 0: 4 + 8, 1: 2 + 8}[rounded_cmp(a, b)]:
                            viol("int-float-rounding:order", i, j, f"(<,>,<=,>=) bits {c}, exact order expects {want}", mode)
                        else:
                            viol("order", i, j, f"(<,>,<=,>=) bits {c}, expected {want}", mode)
                elif c not in (-2,) and kind(a) != kind(b) and not (kind(a) == "num" and kind(b) == "num"):
                    viol("order-cross-type", i, j, f"comparison of different types succeeded with bits {c}", mode)
                if me and H[i] != H[j]:
                    viol("hashability-of-equals", i, j, f"equal values, but hashable: {H[i]} vs {H[j]}", mode)
                if H[i] and H[j]:
                    d = int(dg[i][j][1:])
                    s_ = sg[i][j]
                    if (d == 1) != me:
                        viol("dict-lookup", i, j, f"{{a: 1}}.get(b) found={d == 1} but a == b is {me}", mode)
                    if (s_ == "T") != me:
                        viol("set-member", i, j, f"b in set([a]) = {s_} but a == b is {me}", mode)
        # grouping through one big dict: classes must be exactly the model's equivalence classes (nan excluded)
        # (reported through the pairwise checks above; here only count)
    # mixed matrices (module level and inside a def)
    for mi, mname in ((4, "mixed"), (5, "mixed-def"), (6, "mixed-lib"), (7, "mixed-lib-def")):
        o = outs[mi]
        if "crash" in o or "panic" in o or o["steps"][0]["err"]:
            res.violation("C09:crash", {"mode": mname, "out": str(o)[:1500]})
            continue
        for j, row in enumerate(o["steps"][0]["out"]):
            cells = row[4:-1].split("),(")
            for i, cell in enumerate(cells):
                checks += 1
                a, b, c = cell.strip("()").split(",")
                me = model_eq(CAT[i][1], CAT[j][1])
                if is_rounding_pair(CAT[i][1], CAT[j][1]) and (a == "T") == (rounded_cmp(CAT[i][1], CAT[j][1]) == 0) and a == b and a != c:
                    if (a == "T") != me:
                        viol("int-float-rounding:eq", i, j, f"runtime == literal gives {a}, exact values equal: {me}", mname)
                    continue
                if (a == "T") != me or (b == "T") != me or (c == "T") == me:
                    viol("eq-runtime-vs-literal", i, j, f"(a == lit, lit == a, a != lit) = ({a},{b},{c}), abstract values equal: {me}", mname)
    o = outs[8]
    if "crash" in o or "panic" in o or o["steps"][0]["err"]:
        res.violation("C09:sort-crash", {"out": str(o)[:1500]})
    elif "F" in o["steps"][0]["out"][0]:
        res.violation("C09:sorted-large", {"rows": o["steps"][0]["out"][0][:3000]})
    # literal matrix
    o = outs[3]
    if "crash" in o or "panic" in o or o["steps"][0]["err"]:
        res.violation("C09:crash", {"mode": "literal", "out": str(o)[:1500]})
    else:
        for r, i in zip(o["steps"][0]["out"], lit_idx):
            row = parse_row(r)
            for x, j in zip(row, lit_idx):
                checks += 1
                me = model_eq(CAT[i][1], CAT[j][1])
                if (x == "T") != me:
                    if is_rounding_pair(CAT[i][1], CAT[j][1]) and (x == "T") == (rounded_cmp(CAT[i][1], CAT[j][1]) == 0):
                        viol("int-float-rounding:eq", i, j, f"folded == gives {x}, exact values equal: {me}", "literal")
                    else:
                        viol("eq-literal", i, j, f"folded == gives {x}, abstract values equal: {me}", "literal")
    # sorting
    o = outs[9]
    if "crash" in o or "panic" in o or o["steps"][0]["err"]:
        res.violation("C09:sort-crash", {"out": str(o)[:1500]})
    else:
        out = o["steps"][0]["out"]
        import functools
        for gi, (g, idx) in enumerate(groups.items()):
            rows = out[gi * 5:gi * 5 + 5]
            want = sorted(idx, key=functools.cmp_to_key(lambda i, j: model_cmp(CAT[i][1], CAT[j][1])))
            got = [int(x[1:]) for x in parse_row(rows[0])]
            checks += 1
            if g == "num_all":
                # contains int/float rounding pairs (known finding): require only a permutation that is ordered under
                # the implementation's own pairwise answers
                if sorted(got) != sorted(idx):
                    res.violation("C09:sorted-permutation:num", {"got": got})
                continue
            if got != want:
                res.violation(f"C09:sorted:{g}", {"group": g, "want": [CAT[i][0] for i in want], "got": [CAT[i][0] for i in got]})
            wantr = sorted(idx, key=functools.cmp_to_key(lambda i, j: -model_cmp(CAT[i][1], CAT[j][1])))
            gotr = [int(x[1:]) for x in parse_row(rows[1])]
            if gotr != wantr:
                res.violation(f"C09:sorted-reverse:{g}", {"group": g, "want": [CAT[i][0] for i in wantr], "got": [CAT[i][0] for i in gotr]})
            want2 = sorted(list(reversed(idx)), key=functools.cmp_to_key(lambda i, j: model_cmp(CAT[i][1], CAT[j][1])))
            got2 = [int(x[1:]) for x in parse_row(rows[2])]
            if got2 != want2:
                res.violation(f"C09:sorted-stability:{g}", {"group": g, "want": want2, "got": got2})
            if rows[3] != "T" or rows[4] != "L#0[T,T]":
                res.violation(f"C09:sorted-minmax:{g}", {"group": g, "rows": rows[3:]})
    res.coverage = {
        "evaluations": checks,
        "distinct_nontrivial": n,
        "rule": f"{n} constructions of abstract values (ints at +-2^31/2^53/2^63/2^64 by literal/arithmetic/int()/float, "
                "integral floats, nan/inf/-0.0, strings by literal/concat/slice/format/join/intern/host, tuples/lists/dicts/sets/"
                "structs/ranges by several paths) - ALL ordered pairs, unfrozen x unfrozen, unfrozen x frozen+loaded, frozen x "
                "frozen: == vs abstract equality (exact int/float), !=, symmetry, </>/<=/>= vs the abstract order, dict lookup, "
                "set membership, `in` list/tuple; plus compile-time-folded == on literal pairs; sorted/min/max order, reverse, "
                "stability. Agreement of == with an abstract equivalence on all pairs implies reflexivity, symmetry, transitivity.",
        "samples": [CAT[3][0], CAT[40][0], CAT[100][0]],
    }
    res.assumptions = ["abstract equality: numbers compare by exact mathematical value (Starlark spec), bool is not a number"]
    return res


def replay(path):
    rep = json.load(open(path))["replay"]
    a, b = rep.get("a"), rep.get("b")
    if b is None:
        return 1
    src = f"a = {a}\nb = {b}\nemit([a == b, b == a, a != b, fails(lambda: a < b) or (a < b), fails(lambda: {{a: 1}}) or {{a: 1}}.get(b), " \
          f"fails(lambda: set([a])) or (b in set([a]))])\n"
    o = vlib.run_sut("run", [{"id": 0, "steps": [src]}])[0]
    print(json.dumps({"src": src, "out": o["steps"][0]["out"], "was": rep}, indent=1))
    return 1
