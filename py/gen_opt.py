"""Program families aimed at the optimiser (C02). Each yields (family, defs_src, body_src).

defs_src only defines functions / constants (never mutated afterwards) so that it can be
frozen and load()ed; body_src performs the calls and the emits.
"""
import itertools

T = "def t(x):\n    emit(x)\n    return x\n"

# ---------------------------------------------------------------------------
# G1: inlining

CALLEE_BODIES = [
    "a", "[a, b]", "a + b", "t(a)", "(t(1), a)", "a if b else t(0)", "a and b", "a or b", "K", "a + K", "{a: b}",
    "(a, t(b))", "a[b]", "a // b", "'x%sy' % a", "'{}-{}'.format(a, b)", "type(a) == 'int'", "a == 2", "b == 'q'",
    "len(a)", "g2(a)", "[a for _ in [1, 2]]", "not a", "-a", "(t(3), b, a)", "a in b", "[a][0]", "fail('boom')",
    "(fail('boom'), a)", "(b, fail('boom'))", "(t(7), a, fail('late'))",
]
ARG_SHAPES = [
    ("const", "1, 2"), ("const2", "'s', [1]"), ("const3", "2.0, 'q'"), ("const4", "[1, 2], 0"), ("kw", "b=1, a=2"),
    ("side", "t(1), t(2)"), ("glob", "G1, G2"), ("arity1", "1"), ("arity3", "1, 2, 3"), ("badkw", "1, c=2"),
    ("none", "None, None"),
]


def g1_inline():
    pre = T + "K = 10\nG1 = 5\nG2 = 'g'\ndef g2(x):\n    return [x, K]\n"
    for body in CALLEE_BODIES:
        defs = pre + f"def f(a, b):\n    return {body}\n"
        for name, args in ARG_SHAPES:
            yield "G1.module", defs, f"emit(f({args}))\n"
            yield "G1.in_def", defs, f"def c():\n    return f({args})\nemit(c())\n"
        # locals: definitely assigned parameters, and a possibly-unassigned local at every slot position
        yield "G1.params", defs, "def c(p, q):\n    return f(p, q)\nemit(c(1, 2))\nemit(c('s', 0))\nemit(c([1], 0))\n"
        yield "G1.params_swapped", defs, "def c(p, q):\n    return f(q, p)\nemit(c(1, 2))\nemit(c(0, 's'))\n"
        for flag in ("True", "False"):
            yield "G1.maybe_unassigned", defs, \
                f"def c(p):\n    if p:\n        y = 5\n    return f(y, p)\nemit(c({flag}))\n"
            yield "G1.maybe_unassigned2", defs, \
                f"def c(p):\n    if p:\n        y = 5\n    return f(p, y)\nemit(c({flag}))\n"
            yield "G1.maybe_unassigned3", defs, \
                f"def c(p, q):\n    if p:\n        y = 5\n        z = 6\n    return f(z, y)\nemit(c({flag}, 1))\n"
            yield "G1.maybe_unassigned0", defs, \
                f"def c():\n    if {flag}:\n        y = 5\n    return f(y, 1)\nemit(c())\n"
            yield "G1.unassigned_loop", defs, \
                f"def c(p):\n    for y in p:\n        pass\n    return f(y, 1)\nemit(c([3] if {flag} else []))\n"
    # callee variants: defaults, keyword-only, nested inlining chains, recursion guard
    chains = T + "def f1(a):\n    return [a, t(0)]\ndef f2(a):\n    return f1(a)\ndef f3(a, b=3):\n    return f2(a) + [b]\n"
    for args in ["1", "1, 2", "b=1, a=2", "t(5)", ""]:
        yield "G1.chain", chains, f"emit(f3({args}))\ndef c(p):\n    return f3({args})\nemit(c(1))\n"
    yield "G1.typeis", T + "def isint(x):\n    return type(x) == 'int'\ndef isstr(x):\n    return type(x) == type('')\n", \
        "emit([isint(v) for v in [1, 's', 2.0, None, True]])\nemit([isstr(v) for v in [1, 's']])\nemit(isint(t(1)))\nemit(isint())\n"


# ---------------------------------------------------------------------------
# G2: constant conditions with side effects around them

CONDS = ["True", "False", "1", "0", "''", "'a'", "None", "[]", "[0]", "KT", "KF", "not True", "1 == 1", "'a' in 'abc'",
         "len('ab') == 2", "type(1) == 'int'", "1 < 2 and 2 < 1", "{}", "()", "0.0", "KT and KF", "bool([])"]
COND_FORMS = [
    "if {c}:\n    emit(1)\nelse:\n    emit(2)\n",
    "if {c}:\n    emit(1)\nemit(3)\n",
    "emit(t(1) if {c} else t(2))\n",
    "emit({c} and t(1))\n",
    "emit({c} or t(1))\n",
    "emit(t(3) and {c})\n",
    "emit(t(0) or {c})\n",
    "emit(not {c})\n",
    "emit([t(i) for i in [1, 2] if {c}])\n",
    "for i in [1, 2]:\n    if {c}:\n        continue\n    emit(i)\n",
    "def f():\n    if {c}:\n        return t(1)\n    return t(2)\nemit(f())\n",
    "def f(x):\n    return x if {c} else [x]\nemit(f(1))\nemit(f(t(2)))\n",
    "def f():\n    for i in [1, 2, 3]:\n        if {c}:\n            break\n        emit(i)\n    return i\nemit(f())\n",
    "emit(({c}) == True)\nemit(({c}) == None)\n",
    "x = {c}\nemit(x if x else 'no')\n",
    "def f(x={c}):\n    return 1 if x else 2\nemit(f())\n",
]


def g2_conditions():
    defs = T + "KT = True\nKF = False\n"
    for c in CONDS:
        for form in COND_FORMS:
            yield "G2", defs, form.format(c=c)


# ---------------------------------------------------------------------------
# G3: pure builtins / operators on constants that raise, in live and dead positions

RAISING = ["int('x')", "'a'.index('b')", "[1][2]", "1 // 0", "1 % 0", "1 << -1", "{}[0]", "'%d' % 'x'", "len(1)",
           "(1, 2)[5]", "'abc'[10]", "1 + 'a'", "[] + ()", "-'a'", "None.x", "'a'.nope()", "int('9', 99)",
           "'{}'.format()", "'%s %s' % (1,)", "{[]: 1}", "1.0 // 0", "max([])", "list(1)", "[1].index(2)",
           "'a' * 'b'", "1 < 'a'", "range(1, 2, 0)", "chr(-1)", "'abc'.split('')", "[1, 2][None]", "fail('f')",
           "1 in 2", "str(1, 2)", "hash([])", "{1: 2}.pop(3)", "[].pop()", "int([])", "abs('a')", "sorted([1, 'a'])"]
RAISE_CTX = [
    "emit(1)\nx = {e}\nemit(2)\n",
    "emit(1)\nemit({e})\n",
    "def f():\n    emit(1)\n    return {e}\nemit(0)\nemit(f())\n",
    "def f():\n    return {e}\nemit(0)\n",
    "if False:\n    x = {e}\nemit(1)\n",
    "if KF:\n    x = {e}\nemit(1)\n",
    "emit(False and {e})\n",
    "emit(True or {e})\n",
    "emit(({e}) if False else 1)\n",
    "emit(1 if True else ({e}))\n",
    "emit(0)\ndef f(a={e}):\n    return a\nemit(1)\n",
    "emit([({e}) for _ in []])\n",
    "emit(0)\nemit([({e}) for _ in [1]])\n",
    "emit(t(1) + ({e}))\n",
    "emit(({e}) + t(1))\n",
    "emit([t(1), {e}, t(2)])\n",
    "def f():\n    return ({e})\ndef g():\n    return [t(1), f()]\nemit(g())\n",
    "def f(x):\n    if x:\n        return {e}\n    return 0\nemit(f(False))\nemit(f(True))\n",
    "def f():\n    for i in []:\n        x = {e}\n    return 5\nemit(f())\n",
    "x = [lambda: ({e})]\nemit(1)\nemit(x[0]())\n",
]


def g3_raising():
    defs = T + "KF = False\n"
    for e in RAISING:
        for ctx in RAISE_CTX:
            yield "G3", defs, ctx.format(e=e)


# ---------------------------------------------------------------------------
# G4: specialised instructions / methods on runtime and constant values

VALS = ["1", "2", "2.0", "-0.0", "0", "'s'", "''", "None", "True", "False", "[1]", "[]", "(1,)", "{'a': 1}",
        "1 << 70", "struct(a = 1)", "'2'", "(2,)", "[2]", "3.5", "range(3)", "-2", "()", "(1, 2)", "((1,),)", "((1, 2),)", "([1],)", "((),)"]
SPEC_EXPRS = [
    "v == 2", "2 == v", "v != 2", "v == 's'", "'s' == v", "v != 's'", "v == None", "v == True", "v == 2.0", "v == 0",
    "v == -2", "v == ''", "v == []", "v == (2,)", "type(v) == 'int'", "type(v) == type(1)", "type(v) != 'string'",
    "'%s' % v", "'a%sb' % v", "'%s%s' % (v, v)", "'<%s>' % (v,)", "'%s' % ((v,),)", "'%s %s' % (v, (v,))", "'<%s>' % [v]", "'%s' % {'k': v}",
    "'<{}>'.format((v,))", "'%d' % (v,)", "'%s' % (v, )[0:1]", "'%r' % v", "'%d' % v", "'{}'.format(v)", "'a{}b{}'.format(v, 1)",
    "'{0}{0}'.format(v)", "'{x}'.format(x = v)", "str(v)", "repr(v)", "len(v)", "v in [1, 's']", "v in (2,)",
    "v in 's2'", "v in {2: 1}", "2 in v", "v + v", "v * 2", "-v", "+v", "~v", "not v", "bool(v)", "[v][0]",
    "(v, v)[1]", "{'k': v}['k']", "v if v else 0", "isinstance(v, int)", "isinstance(v, str)", "v.a", "v[0]", "v[:1]",
    "v < 2", "v <= 2.0", "v // 2", "v % 2", "v & 1", "v | 1", "v << 1", "v >> 1", "int(v)", "float(v)", "list(v)",
    "hash(v) == hash(v)", "v == v", "[v] == [v]", "(v,) < (v,)", "min(v, 2)", "abs(v)", "str(v) + 'x'", "v and 2",
    "v or 2", "f'{v}'", "f'a{v}b{v}'", "json.encode(v)", "dir(v) == dir(v)", "getattr(v, 'a', 9)", "hasattr(v, 'a')",
    "v.startswith('s')", "v.append(1)", "v.get('a')", "v.format(1)", "v.keys()", "v.index(1)", "len([v, v])", "v[0:1:1]", "v[::-1]", "v[t(0):1:1]",
]


def g4_specialised():
    import re
    for e in SPEC_EXPRS:
        # runtime: v is a parameter; constant: v substituted textually (whole expression folds);
        # global: v is a once-assigned module constant read from a function
        body = f"def f(v):\n    return {e}\n"
        calls = "".join(f"emit(fails(lambda: f({v})) or f({v}))\n" for v in VALS)
        yield "G4.param", body, calls
        for v in VALS:
            lit = re.sub(r"\bv\b", f"({v})", e)
            yield "G4.const", "", f"emit({lit})\n"
            if "append" not in e:  # loaded values are frozen: no mutation of defs-level values
                yield "G4.global", f"V = {v}\ndef f():\n    return " + re.sub(r"\bv\b", "V", e) + "\n", "emit(f())\n"


# ---------------------------------------------------------------------------
# G5: globals assigned once / twice, captured by functions, read after freezing

def g5_globals():
    vals = ["1", "'s'", "[1, 2]", "(1, [2])", "{'k': 1}", "None", "2.5", "struct(a = [1])"]
    for v in vals:
        yield "G5.once", f"X = {v}\ndef f():\n    return X\ndef g():\n    return [X, f()]\n", "emit(f())\nemit(g())\nemit(X)\n"
        yield "G5.twice", f"X = 0\nX = {v}\ndef f():\n    return X\n", "emit(f())\nemit(X)\n"
        yield "G5.after", f"def f():\n    return X\nX = {v}\n", "emit(f())\n"
        yield "G5.reassigned_after_def", f"X = 1\ndef f():\n    return X\nY = f()\nX = {v}\n", "emit([f(), Y, X])\n"
        yield "G5.cond", f"if len('a') == 1:\n    X = {v}\nelse:\n    X = 0\ndef f():\n    return X\n", "emit(f())\n"
        yield "G5.loop", f"for X in [0, {v}]:\n    pass\ndef f():\n    return X\n", "emit(f())\n"
        yield "G5.default", f"X = {v}\ndef f(a = X):\n    return a\n", "emit(f())\nemit(f(1))\n"
        yield "G5.closure", f"def mk():\n    x = {v}\n    def inner():\n        return x\n    return inner\nf = mk()\n", "emit(f())\n"
        yield "G5.lambda", f"X = {v}\nf = lambda: X\ng = lambda y = X: [y, X]\n", "emit(f())\nemit(g())\n"
    yield "G5.shadow", "len = 3\ndef f():\n    return len\n", "emit(f())\n"
    yield "G5.shadow2", "def f():\n    return len([1])\nlen = 3\n", "emit(fails(f))\n"
    yield "G5.shadow3", "def str(x):\n    return 'mine'\ndef f(v):\n    return str(v) + '%s' % v\n", "emit(f(1))\n"
    yield "G5.shadow4", "def type(x):\n    return 'int'\ndef f(v):\n    return type(v) == 'int'\n", "emit(f('s'))\n"
    yield "G5.shadow5", "True_ = False\ndef f(v):\n    return v == True_\n", "emit(f(0))\nemit(f(False))\n"


# ---------------------------------------------------------------------------
# G6: records, enums, types, f-strings, annotations

def g6_types():
    defs = ("R = record(a = int, b = field(str, 'd'))\nE = enum('x', 'y')\n"
            "def mk(a):\n    return R(a = a)\ndef ann(x: int, y: str = 's') -> list:\n    return [x, y]\n"
            "def bad(x: int) -> str:\n    return x\ndef un(x: int | None):\n    return x\n")
    bodies = [
        "emit(mk(1))\nemit(mk(1).a)\nemit(mk(2).b)\n", "emit(fails(lambda: mk('s')))\n", "emit(R(a = 1, b = 'z'))\n",
        "emit(E('x'))\nemit(E('x').value)\nemit(E('y').index)\nemit([e for e in E])\n", "emit(fails(lambda: E('z')))\n",
        "emit(ann(1))\nemit(ann(1, 'q'))\n", "emit(fails(lambda: ann('s')))\n", "emit(fails(lambda: ann(1, 2)))\n",
        "emit(fails(lambda: bad(1)))\n", "emit(un(None))\nemit(un(1))\nemit(fails(lambda: un('s')))\n",
        "emit(isinstance(mk(1), R))\nemit(isinstance(1, R))\nemit(isinstance(E('x'), E))\n",
        "x = 1\ny = 's'\nemit(f'{x}-{y}')\nemit(f'{x}{x}')\nemit(f'a{y}')\n",
        "def g(x, y):\n    return f'{x}+{y}={x}'\nemit(g(1, 2))\nemit(g('a', [1]))\n",
        "emit(str(R))\nemit(str(E))\nemit(str(mk(3)))\nemit(repr(E('y')))\n",
        "emit(mk(1) == mk(1))\nemit(mk(1) == mk(2))\nemit(E('x') == E('x'))\nemit({E('x'): 1}[E('x')])\n",
    ]
    for b in bodies:
        yield "G6", defs, b


# ---------------------------------------------------------------------------
# G7: index / slice on constant receivers with constant, computed and absent components

def g7_slices():
    recvs = ["(5, 6, 7, 8)", "[5, 6, 7, 8]", "'abcd'", "K4", "range(4)"]
    comps = ["", "1", "t(1)", "-1", "K1", "t(3)"]
    steps = ["", "1", "t(1)", "2", "-1", "t(-1)", "K1"]
    defs = T + "K4 = (5, 6, 7, 8)\nK1 = 1\n"
    for r in recvs:
        for a, b in itertools.product(comps, repeat=2):
            for c in steps:
                sl = f"{a}:{b}" + (f":{c}" if c else "")
                e = f"{r}[{sl}]" if r != "range(4)" else f"list({r}[{sl}])"
                yield "G7.module", defs, f"emit({e})\n"
                yield "G7.def", defs, f"def f():\n    return {e}\nemit(f())\n"
        for i in ["0", "t(0)", "-1", "K1", "9", "t(9)", "'x'", "None"]:
            yield "G7.index", defs, f"emit(({r})[{i}])\ndef f():\n    return ({r})[{i}]\nemit(f())\n"


def all_families(tier):
    yield from g7_slices()
    yield from g1_inline()
    yield from g2_conditions()
    yield from g3_raising()
    yield from g4_specialised()
    yield from g5_globals()
    yield from g6_types()
