#!/bin/bash
# Run the thorough tier of every check in this checkout, keep a copy of each evidence file under evidence-thorough/.
mkdir -p evidence-thorough logs-thorough
for id in ${@:-C09 C10 C14 C16 C19 C04 C12 C17 C08 C15 C18 C06 C07 C05 C02 C03 C11 C13 C20 C01}; do
  echo "=== $id $(date +%T)"
  /usr/bin/time -f "$id wall=%es maxrss=%MKB" ./check $id --tier thorough > logs-thorough/$id.log 2>&1
  echo "exit=$?" >> logs-thorough/$id.log
  grep -E "VIOLATION|KNOWN-FINDING|MACHINERY|tier=|exit=|wall=" logs-thorough/$id.log | cut -c1-300
  cp evidence/$id.json evidence-thorough/$id.json 2>/dev/null
done
echo ALL-DONE
