#!/usr/bin/env python3
"""Collect verified seeded changes from the scratch area into /verif/seeded/<ID>-mN/.
usage: tools/mkseeded.py <ID> <mN> <detect-log> [<detect-log>...]
Reads /tmp/seed-<ID>/<mN>/{patch.diff,notes.md,demo/} and /tmp/seedverify/<ID>-<mN>.log (my own re-verification)."""
import json, os, re, shutil, sys

pid, m = sys.argv[1], sys.argv[2]
det_logs = sys.argv[3:]
ROUND2 = os.environ.get("ROUND") == "2"   # second round of sub-agents (told which changes already existed)
src = f"/tmp/seed2-{pid}/{m}" if ROUND2 else f"/tmp/seed-{pid}/{m}"
dst = f"/verif/seeded/{pid}-r2{m}" if ROUND2 else f"/verif/seeded/{pid}-{m}"
os.makedirs(dst, exist_ok=True)
shutil.copy(f"{src}/patch.diff", f"{dst}/patch.diff")
if os.path.isdir(f"{dst}/demo"):
    shutil.rmtree(f"{dst}/demo")
shutil.copytree(f"{src}/demo", f"{dst}/demo")
notes = ""
if os.path.exists(f"{src}/notes.md"):
    shutil.copy(f"{src}/notes.md", f"{dst}/notes.md")
    notes = open(f"{src}/notes.md").read()
title = notes.split("\n")[0].lstrip("# ").strip() if notes else ""
needs = ""
mm = re.search(r"^##[^\n]*(needed|trigger|manifest)[^\n]*\n(.*?)(?=^## |\Z)", notes, re.S | re.M | re.I)
if mm:
    needs = re.sub(r"\n{2,}", "\n", mm.group(2).strip())[:1500]
files = re.findall(r"^diff --git a/(\S+)", open(f"{src}/patch.diff").read(), re.M)
ver = {}
vlog = f"/tmp/seedverify/R2-{pid}-{m}.log" if ROUND2 else f"/tmp/seedverify/{pid}-{m}.log"
if os.path.exists(vlog):
    t = open(vlog).read()
    parts = re.split(r"^=== (SUITE WITH MUTATION|DEMO WITH MUTATION|DEMO WITHOUT MUTATION|DONE)$", t, flags=re.M)
    sec = {parts[i]: parts[i + 1] for i in range(1, len(parts) - 1, 2)}
    def grab(x, pat):
        return [l.strip()[:200] for l in sec.get(x, "").split("\n") if re.search(pat, l)][:4]
    ver = {
        "suite_with_change": grab("SUITE WITH MUTATION", r"Summary|FAIL \["),
        "demo_with_change": grab("DEMO WITH MUTATION", r"test result|stack overflow|panicked|error: test failed"),
        "demo_without_change": grab("DEMO WITHOUT MUTATION", r"test result|error: test failed"),
    }
det = []
for dl in det_logs:
    if os.path.exists(dl):
        for l in open(dl):
            if re.search(r"VIOLATION|tier=|exit=|MACHINERY", l):
                l = re.sub(r"/tmp/st/slot1/verif/", "", l.strip())
                det.append(l[:260])
caught = any("VIOLATION" in l for l in det)
caught_by = sorted({re.search(r"property=(C\d+)", l).group(1) + " quick" for l in det if "VIOLATION" in l})
old = {}
if os.path.exists(f"{dst}/meta.json"):
    old = json.load(open(f"{dst}/meta.json"))
meta = {
    "id": os.path.basename(dst),
    "breaks_property": pid,
    "title": title or old.get("title", ""),
    "files_changed": files,
    "needs_to_manifest": needs or old.get("needs_to_manifest", ""),
    "origin": "sub-agent given only the property text and a scratch worktree of /repo" + (" (second round: also told the titles of the first-round changes, to avoid repeating them)" if ROUND2 else ""),
    "verified_by_me": ver or old.get("verified_by_me", {}),
    "what_i_ran": [
        "/tmp/verify_seed.sh (scratch worktree of /repo at HEAD + patch): cargo nextest run --workspace --no-fail-fast --offline; the demo with the change; the demo without it",
        f"tools/seedtest.sh seeded/{os.path.basename(dst)}/patch.diff quick {pid}  (scratch worktree + scratch copy of /verif; /repo untouched)",
    ],
    "detection": det[:14],
    "caught_by": caught_by,
    "notes": old.get("notes", ""),
}
json.dump(meta, open(f"{dst}/meta.json", "w"), indent=1, ensure_ascii=False)
print(dst, "caught" if caught else "NOT CAUGHT", "| verified:", {k: (v[-1] if v else None) for k, v in (ver or {}).items()})
