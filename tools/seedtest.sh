#!/bin/bash
# Run checks against a seeded mutation WITHOUT touching /repo or /verif:
#   tools/seedtest.sh <patch.diff> <tier> <ID> [<ID>...]
# Uses a scratch git worktree of /repo and a copy of /verif under /tmp/st/slot1 (sequential use only).
patch=$1; tier=$2; shift 2
slot=${SEEDTEST_SLOT:-/tmp/st/slot1}
mkdir -p $slot
head=$(git -C /repo rev-parse HEAD)
if [ -d $slot/repo/.git ] || [ -f $slot/repo/.git ]; then
  git -C $slot/repo checkout -q -- . && git -C $slot/repo checkout -q --detach $head || exit 9
else
  git -C /repo worktree add -q --detach $slot/repo $head || exit 9
fi
if [ "$patch" != "none" ]; then
  git -C $slot/repo apply $patch || { echo "PATCH-DOES-NOT-APPLY"; exit 8; }
fi
mkdir -p $slot/verif
rsync -a --delete --exclude harness/target --exclude .git --exclude evidence --exclude replays /verif/ $slot/verif/
sed -i "s#/repo/#$slot/repo/#g" $slot/verif/harness/sut/Cargo.toml
rc_all=0
for id in "$@"; do
  echo "=== $id on $(basename $(dirname $patch))/$(basename $patch)"
  (cd $slot/verif && ./check $id --tier $tier 2>&1 | grep -E "VIOLATION|KNOWN-FINDING|MACHINERY|tier=" | head -8)
  echo "exit=${PIPESTATUS[0]}"
done
git -C $slot/repo checkout -q -- .
