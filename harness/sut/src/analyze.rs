//! Static analysis driver (C14, C17): typecheck + lint a module; optionally evaluate it and encode bindings.

use std::collections::HashMap;
use std::panic;

use serde_json::Value as J;
use serde_json::json;
use starlark::analysis::AstModuleLint;
use starlark::environment::Module;
use starlark::eval::Evaluator;
use starlark::syntax::AstModule;
use starlark::typing::AstModuleTypecheck;

use crate::enc;
use crate::natives::Store;
use crate::runner::dialect_of;
use crate::runner::globals_of;

fn one(spec: &J) -> J {
    let src = spec["src"].as_str().unwrap();
    let d = dialect_of(spec.get("dialect").and_then(|x| x.as_str()).unwrap_or("all"));
    let globals = globals_of("ext");
    let ast = match AstModule::parse("m.star", src.to_owned(), &d) {
        Err(e) => return json!({"id": spec["id"], "parse_error": format!("{}", e.without_diagnostic())}),
        Ok(a) => a,
    };
    let lint: Vec<String> = ast.lint(None).iter().map(|l| format!("{} [{}] {:?}", l, l.short_name, l.original)).collect();
    let ast2 = AstModule::parse("m.star", src.to_owned(), &d).unwrap();
    let (errors, typemap, interface, approx) = ast2.typecheck(&globals, &HashMap::new());
    let errors: Vec<String> = errors.iter().map(|e| format!("{}", e)).collect();
    let approx: Vec<String> = approx.iter().map(|a| format!("{}: {}", a.category, a.message)).collect();
    let mut iface = serde_json::Map::new();
    if let Some(names) = spec.get("names").and_then(|n| n.as_array()) {
        for n in names {
            let n = n.as_str().unwrap();
            iface.insert(n.to_owned(), match interface.get(n) {
                Some(t) => J::String(format!("{}", t)),
                None => J::Null,
            });
        }
    }
    let mut out = json!({"id": spec["id"], "lint": lint, "errors": errors, "typemap": format!("{}", typemap),
                         "interface": iface, "approximations": approx});
    if spec.get("eval").and_then(|x| x.as_bool()) == Some(true) {
        let store = Store::default();
        let vals = Module::with_temp_heap(|m| {
            let r = {
                let mut eval = Evaluator::new(&m);
                eval.extra = Some(&store);
                let ast3 = AstModule::parse("m.star", src.to_owned(), &d).unwrap();
                eval.eval_module(ast3, &globals).map(|_| ()).map_err(|e| format!("{}", e.without_diagnostic()))
            };
            let mut vals = serde_json::Map::new();
            if let Err(e) = r {
                vals.insert("$error".into(), J::String(e));
            }
            if let Some(names) = spec.get("names").and_then(|n| n.as_array()) {
                for n in names {
                    let n = n.as_str().unwrap();
                    if let Some(v) = m.get(n) {
                        vals.insert(n.to_owned(), J::String(enc::encode(v)));
                    }
                }
            }
            vals
        });
        out["values"] = J::Object(vals);
    }
    out
}

pub fn cmd() {
    crate::install_panic_hook();
    use std::io::BufRead;
    use std::io::Write;
    let stdin = std::io::stdin();
    let stdout = std::io::stdout();
    let mut out = std::io::BufWriter::new(stdout.lock());
    for line in stdin.lock().lines() {
        let line = line.unwrap();
        if line.trim().is_empty() {
            continue;
        }
        let spec: J = serde_json::from_str(&line).unwrap();
        let r = panic::catch_unwind(panic::AssertUnwindSafe(|| one(&spec)));
        let o = match r {
            Ok(o) => o,
            Err(_) => json!({"id": spec["id"], "panic": crate::take_panic()}),
        };
        writeln!(out, "{}", o).unwrap();
        out.flush().unwrap();
    }
}
