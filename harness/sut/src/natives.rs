//! Harness-native functions visible to generated programs.

use std::cell::Cell;
use std::cell::RefCell;

use starlark::any::ProvidesStaticType;
use starlark::environment::GlobalsBuilder;
use starlark::eval::Evaluator;
use starlark::starlark_module;
use starlark::values::Heap;
use starlark::values::Value;
use starlark::values::none::NoneType;

use crate::enc;

#[derive(Debug, ProvidesStaticType, Default)]
pub struct Store {
    pub out: RefCell<Vec<String>>,
    pub cancel: Cell<bool>,
    pub emit_ticks: Cell<bool>,
}

impl Store {
    pub fn take(&self) -> Vec<String> {
        std::mem::take(&mut *self.out.borrow_mut())
    }
}

pub fn store<'a>(eval: &Evaluator<'_, 'a, '_>) -> &'a Store {
    eval.extra
        .expect("store not set")
        .downcast_ref::<Store>()
        .expect("store type")
}

#[starlark_module]
pub fn harness_natives(builder: &mut GlobalsBuilder) {
    /// Record the canonical encoding of a value in the transcript.
    fn emit<'v>(x: Value<'v>, eval: &mut Evaluator<'v, '_, '_>) -> anyhow::Result<NoneType> {
        let s = enc::encode(x);
        store(eval).out.borrow_mut().push(s);
        Ok(NoneType)
    }

    /// Identity function the optimiser knows nothing about.
    fn opaque<'v>(x: Value<'v>) -> anyhow::Result<Value<'v>> {
        Ok(x)
    }

    /// Current depth of the Starlark call stack (including this native frame).
    fn depth_probe(eval: &mut Evaluator) -> anyhow::Result<i32> {
        Ok(eval.call_stack_count() as i32)
    }

    /// Raise the cancellation flag read by `set_check_cancelled`.
    fn cancel_now(eval: &mut Evaluator) -> anyhow::Result<NoneType> {
        store(eval).cancel.set(true);
        Ok(NoneType)
    }

    /// Intern a string through the heap's interner.
    fn intern<'v>(s: &str, heap: Heap<'v>) -> anyhow::Result<Value<'v>> {
        Ok(heap.alloc_str_intern(s).to_value())
    }

    /// Host-side string allocation (not interned, not a literal).
    fn host_str<'v>(s: &str, heap: Heap<'v>) -> anyhow::Result<Value<'v>> {
        Ok(heap.alloc_str(s).to_value())
    }

    /// Store a value in a module variable through the evaluator API.
    fn set_later<'v>(
        name: &str,
        value: Value<'v>,
        eval: &mut Evaluator<'v, '_, '_>,
    ) -> anyhow::Result<NoneType> {
        eval.set_module_variable_at_some_point(name, value).map_err(|e| e.into_anyhow())?;
        Ok(NoneType)
    }

    /// Store a value as the module's extra value.
    fn set_extra<'v>(value: Value<'v>, eval: &mut Evaluator<'v, '_, '_>) -> anyhow::Result<NoneType> {
        eval.module().set_extra_value(value);
        Ok(NoneType)
    }

    /// Read the module's extra value.
    fn get_extra<'v>(eval: &mut Evaluator<'v, '_, '_>) -> anyhow::Result<Value<'v>> {
        Ok(eval.module().extra_value().unwrap_or(Value::new_none()))
    }

    /// Call `f` from native code (re-entry through the host API).
    fn call_native<'v>(
        f: Value<'v>,
        #[starlark(args)] args: starlark::values::tuple::UnpackTuple<Value<'v>>,
        eval: &mut Evaluator<'v, '_, '_>,
    ) -> starlark::Result<Value<'v>> {
        eval.eval_function(f, &args.items, &[])
    }

    /// Call `f()`; true iff the call failed (used to batch calls expected to be ill-formed).
    fn fails<'v>(f: Value<'v>, eval: &mut Evaluator<'v, '_, '_>) -> anyhow::Result<bool> {
        Ok(eval.eval_function(f, &[], &[]).is_err())
    }

    /// Host-side type API: `TypeCompiled::new(ty).matches(v)`.
    fn type_matches<'v>(ty: Value<'v>, v: Value<'v>, heap: Heap<'v>) -> anyhow::Result<bool> {
        Ok(starlark::values::typing::TypeCompiled::new(ty, heap)?.matches(v))
    }

    /// Call `f()`; returns "ok", "err", or "bad:<why>" when the error is not well-formed
    /// (no span / span outside its file / call stack frame that does not resolve).
    fn probe<'v>(f: Value<'v>, eval: &mut Evaluator<'v, '_, '_>) -> anyhow::Result<String> {
        match eval.eval_function(f, &[], &[]) {
            Ok(_) => Ok("ok".to_owned()),
            Err(e) => {
                let j = crate::runner::err_json(&e);
                if j["span"].is_null() {
                    return Ok(format!("bad:no-span:{}", j["msg"]));
                }
                if j["span_ok"] != true {
                    return Ok(format!("bad:span:{}", j["span"]));
                }
                if j["frames_ok"] != true {
                    return Ok(format!("bad:frames:{}", j["frames"]));
                }
                if j["msg"].as_str().map(|m| m.trim().is_empty()).unwrap_or(true) {
                    return Ok("bad:empty-message".to_owned());
                }
                Ok("err".to_owned())
            }
        }
    }

    /// Module variable by name (None if unset).
    fn modvar<'v>(name: &str, eval: &mut Evaluator<'v, '_, '_>) -> anyhow::Result<Value<'v>> {
        Ok(eval.module().get(name).unwrap_or(Value::new_none()))
    }

    /// The hash the dict implementation uses for `v` (for strings: the lazily cached cell).
    fn key_hash<'v>(v: Value<'v>) -> anyhow::Result<i64> {
        Ok(v.get_hashed().map_err(|e| e.into_anyhow())?.hash().get() as i64)
    }

    /// Total tick count so far.
    fn tick_count(eval: &mut Evaluator) -> anyhow::Result<i32> {
        Ok(eval.get_total_tick_count() as i32)
    }
}
