//! `sut`: the system-under-test driver. One subcommand per engine.

mod enc;
mod natives;
mod runner;

use std::io::BufRead;
use std::io::Write;
use std::panic;
use std::sync::Mutex;

use serde_json::Value as J;
use serde_json::json;

static LAST_PANIC: Mutex<Option<String>> = Mutex::new(None);

pub fn install_panic_hook() {
    panic::set_hook(Box::new(|info| {
        let msg = format!("{}", info);
        *LAST_PANIC.lock().unwrap() = Some(msg);
    }));
}

pub fn take_panic() -> String {
    LAST_PANIC.lock().unwrap().take().unwrap_or_default()
}

/// JSONL in (specs), JSONL out (outcomes).
fn cmd_run() {
    install_panic_hook();
    let stdin = std::io::stdin();
    let stdout = std::io::stdout();
    let mut out = std::io::BufWriter::new(stdout.lock());
    for line in stdin.lock().lines() {
        let line = line.unwrap();
        if line.trim().is_empty() {
            continue;
        }
        let spec: J = serde_json::from_str(&line).expect("bad spec json");
        let id = spec.get("id").cloned().unwrap_or(J::Null);
        // announce start so that a crash can be attributed
        let r = panic::catch_unwind(panic::AssertUnwindSafe(|| runner::run_spec(&spec)));
        let o = match r {
            Ok(o) => o,
            Err(_) => json!({"id": id, "panic": take_panic()}),
        };
        writeln!(out, "{}", o).unwrap();
        out.flush().unwrap();
    }
}

fn main() {
    let args: Vec<String> = std::env::args().collect();
    let cmd = args.get(1).map(|s| s.as_str()).unwrap_or("");
    match cmd {
        "run" => cmd_run(),
        _ => {
            eprintln!("usage: sut <run|...>");
            std::process::exit(2);
        }
    }
}
