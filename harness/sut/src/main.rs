//! `sut`: the system-under-test driver. One subcommand per engine.

mod analyze;
mod astwalk;
mod c05;
mod c06;
mod c10;
mod c11;
mod c13;
mod c18;
mod c19;
mod c20;
mod enc;
mod natives;
mod runner;

use std::io::BufRead;
use std::io::Write;
use std::panic;
use std::sync::Mutex;

use serde_json::Value as J;
use serde_json::json;

static LAST_PANIC: Mutex<Option<String>> = Mutex::new(None);

pub fn install_panic_hook() {
    panic::set_hook(Box::new(|info| {
        let msg = format!("{}", info);
        *LAST_PANIC.lock().unwrap() = Some(msg);
    }));
}

pub fn take_panic() -> String {
    LAST_PANIC.lock().unwrap().take().unwrap_or_default()
}

/// JSONL in (specs), JSONL out (outcomes).
fn cmd_run() {
    install_panic_hook();
    let stdin = std::io::stdin();
    let stdout = std::io::stdout();
    let mut out = std::io::BufWriter::new(stdout.lock());
    for line in stdin.lock().lines() {
        let line = line.unwrap();
        if line.trim().is_empty() {
            continue;
        }
        let spec: J = serde_json::from_str(&line).expect("bad spec json");
        let id = spec.get("id").cloned().unwrap_or(J::Null);
        // announce start so that a crash can be attributed
        let r = panic::catch_unwind(panic::AssertUnwindSafe(|| runner::run_spec(&spec)));
        let o = match r {
            Ok(o) => o,
            Err(_) => json!({"id": id, "panic": take_panic()}),
        };
        writeln!(out, "{}", o).unwrap();
        out.flush().unwrap();
    }
}

/// C03: for each spec, run the no-collection baseline, then every GC schedule in the bound,
/// comparing the whole outcome. Output per spec: counts, or the first differing schedule.
fn cmd_gcsweep() {
    install_panic_hook();
    let stdin = std::io::stdin();
    let stdout = std::io::stdout();
    let mut out = std::io::BufWriter::new(stdout.lock());
    for line in stdin.lock().lines() {
        let line = line.unwrap();
        if line.trim().is_empty() {
            continue;
        }
        let spec: J = serde_json::from_str(&line).expect("bad spec json");
        let id = spec.get("id").cloned().unwrap_or(J::Null);
        let full_n = spec.get("full_n").and_then(|x| x.as_u64()).unwrap_or(10) as usize;
        let strip = |mut o: J| -> J {
            o.as_object_mut().unwrap().remove("gc");
            o
        };
        let run = |mask: &[bool], tail: bool| -> Result<J, String> {
            panic::catch_unwind(panic::AssertUnwindSafe(|| runner::run_spec_gc(&spec, Some((mask, tail)))))
                .map_err(|_| take_panic())
        };
        let base = match run(&[], false) {
            Ok(b) => b,
            Err(p) => {
                writeln!(out, "{}", json!({"id": id, "base_panic": p})).unwrap();
                out.flush().unwrap();
                continue;
            }
        };
        let n = base["gc"]["safepoints"].as_u64().unwrap_or(0) as usize;
        let base_s = strip(base.clone());
        // determinism of the baseline itself
        let base2 = run(&[], false).map(strip);
        if base2.as_ref().ok() != Some(&base_s) {
            writeln!(out, "{}", json!({"id": id, "nondeterministic_baseline": true})).unwrap();
            out.flush().unwrap();
            continue;
        }
        let mut schedules: Vec<(Vec<bool>, bool)> = Vec::new();
        if n <= full_n {
            for m in 1u64..(1u64 << n) {
                schedules.push(((0..n).map(|i| m >> i & 1 == 1).collect(), false));
            }
        } else {
            for i in 0..n {
                let mut v = vec![false; n];
                v[i] = true;
                schedules.push((v.clone(), false));
                for j in i + 1..n {
                    let mut w = v.clone();
                    w[j] = true;
                    schedules.push((w, false));
                }
            }
            for k in 1..=4 {
                for off in 0..k {
                    schedules.push(((0..n).map(|i| i % k == off).collect(), false));
                }
            }
            schedules.push((vec![], true));
        }
        let mut bad: Option<J> = None;
        let mut collections = 0u64;
        let mut runs = 0u64;
        for (mask, tail) in &schedules {
            runs += 1;
            match run(mask, *tail) {
                Ok(o) => {
                    collections += o["gc"]["collections"].as_u64().unwrap_or(0);
                    let o = strip(o);
                    if o != base_s {
                        let ms: String = mask.iter().map(|b| if *b { '1' } else { '0' }).collect();
                        bad = Some(json!({"mask": ms, "tail": tail, "got": o}));
                        break;
                    }
                }
                Err(p) => {
                    let ms: String = mask.iter().map(|b| if *b { '1' } else { '0' }).collect();
                    bad = Some(json!({"mask": ms, "tail": tail, "panic": p}));
                    break;
                }
            }
        }
        writeln!(
            out,
            "{}",
            json!({"id": id, "safepoints": n, "schedules": runs, "collections": collections,
                   "full": n <= full_n, "base": base_s, "diff": bad})
        )
        .unwrap();
        out.flush().unwrap();
    }
}

fn prealloc_noise() {
    // VERIF_PREALLOC=<bytes>: allocate and leak mixed-size live blocks before anything else (address-layout noise)
    if let Ok(n) = std::env::var("VERIF_PREALLOC") {
        let mut left: usize = n.parse().unwrap_or(0);
        let mut sz = 24usize;
        while left > 0 {
            let v: Vec<u8> = vec![0xA5; sz];
            left = left.saturating_sub(sz);
            std::mem::forget(v);
            sz = sz * 5 / 3 % 70000 + 16;
        }
    }
}

fn main() {
    prealloc_noise();
    // VERIF_THREAD=spawn: run the whole command on a spawned thread; spawn2: after another evaluation on that thread
    if let Ok(mode) = std::env::var("VERIF_THREAD") {
        if std::env::var("VERIF_THREAD_INNER").is_err() && (mode == "spawn" || mode == "spawn2") {
            unsafe { std::env::set_var("VERIF_THREAD_INNER", "1") };
            let h = std::thread::Builder::new().stack_size(8 << 20).spawn(move || {
                if mode == "spawn2" {
                    let _ = runner::run_spec(&serde_json::json!({"id": 0, "steps": ["x = [1, 2]\ndef f(): return {'a': x}\nf()\n"]}));
                }
                real_main()
            }).unwrap();
            h.join().unwrap();
            return;
        }
    }
    real_main()
}

fn real_main() {
    let args: Vec<String> = std::env::args().collect();
    let cmd = args.get(1).map(|s| s.as_str()).unwrap_or("");
    match cmd {
        "run" => cmd_run(),
        "canary" => {
            // what varies between configurations (C14): std HashMap order, an allocation address, the thread
            let m: std::collections::HashMap<u32, u32> = (0..8).map(|i| (i, i)).collect();
            let order: Vec<u32> = m.keys().copied().collect();
            let b = Box::new(17u64);
            println!(
                "{}",
                serde_json::json!({"hashmap_order": order, "addr": format!("{:p}", &*b),
                                   "thread": format!("{:?}", std::thread::current().name())})
            );
        }
        "globals" => {
            let g = runner::globals_of("ext");
            let names: Vec<String> = g.names().map(|n| n.as_str().to_owned()).collect();
            println!("{}", serde_json::to_string(&names).unwrap());
        }
        "gcsweep" => cmd_gcsweep(),
        "analyze" => analyze::cmd(),
        "c05" => c05::cmd(),
        "parse" => c06::cmd(),
        "c10api" => c10::cmd(),
        "c11" => c11::cmd(),
        "c13" => c13::cmd(),
        "c18" => c18::cmd(),
        "c19" => c19::cmd(),
        "c20" => c20::cmd(),
        _ => {
            eprintln!("usage: sut <run|...>");
            std::process::exit(2);
        }
    }
}
