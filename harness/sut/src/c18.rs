//! C18: run one program under one instrumentation configuration (profiler / statement hook / debugger) and
//! report the transcript plus what the instrumentation observed.

use std::cell::RefCell;
use std::collections::HashMap;
use std::panic;
use std::sync::mpsc;
use std::time::Duration;

use debugserver_types::Source;
use debugserver_types::SourceBreakpoint;
use debugserver_types::SetBreakpointsArguments;
use serde_json::Value as J;
use serde_json::json;
use starlark::codemap::FileSpanRef;
use starlark::debug::DapAdapter;
use starlark::debug::DapAdapterClient;
use starlark::debug::DapAdapterEvalHook;
use starlark::debug::StepKind;
use starlark::debug::prepare_dap_adapter;
use starlark::debug::resolve_breakpoints;
use starlark::environment::Module;
use starlark::eval::BeforeStmtFunc;
use starlark::eval::BeforeStmtFuncDyn;
use starlark::eval::Evaluator;
use starlark::syntax::AstModule;
use starlark::syntax::Dialect;

use crate::enc;
use crate::natives::Store;
use crate::runner::Loader;
use crate::runner::err_json;
use crate::runner::globals_of;
use crate::runner::profile_mode_of;

struct RecHook {
    lines: std::sync::Arc<std::sync::Mutex<Vec<(usize, bool)>>>,
    record: bool,
}

impl<'e> BeforeStmtFuncDyn<'e> for RecHook {
    fn call<'v>(&mut self, span: FileSpanRef, continued: bool, _eval: &mut Evaluator<'v, '_, 'e>) -> starlark::Result<()> {
        if self.record {
            let line = span.resolve_span().begin.line;
            self.lines.lock().unwrap().push((line + 1, continued));
        }
        Ok(())
    }
}

enum Msg {
    Stopped,
    Done(J),
}

#[derive(Debug)]
struct Client {
    tx: std::sync::Mutex<mpsc::Sender<Msg>>,
}

impl DapAdapterClient for Client {
    fn event_stopped(&self) -> starlark::Result<()> {
        let _ = self.tx.lock().unwrap().send(Msg::Stopped);
        Ok(())
    }
}

fn bp_args(path: &str, lines: &[(i64, Option<String>)]) -> SetBreakpointsArguments {
    SetBreakpointsArguments {
        breakpoints: Some(
            lines
                .iter()
                .map(|(line, cond)| SourceBreakpoint {
                    column: None,
                    condition: cond.clone(),
                    hit_condition: None,
                    line: *line,
                    log_message: None,
                })
                .collect(),
        ),
        lines: None,
        source: Source {
            adapter_data: None,
            checksums: None,
            name: None,
            origin: None,
            path: Some(path.to_owned()),
            presentation_hint: None,
            source_reference: None,
            sources: None,
        },
        source_modified: None,
    }
}

/// Evaluate `src` with the given evaluator set-up; returns the outcome JSON.
fn eval_with<F: FnOnce(&mut Evaluator)>(src: &str, gc_always: bool, setup: F) -> J {
    eval_with_libs(src, &[], gc_always, setup)
}

/// Libraries are evaluated plainly (no instrumentation) and frozen; the program loads them.
fn eval_with_libs<F: FnOnce(&mut Evaluator)>(src: &str, libs: &[(String, String)], gc_always: bool, setup: F) -> J {
    let store = Store::default();
    let globals = globals_of("ext");
    let mut loader = Loader { modules: HashMap::new() };
    for (name, lsrc) in libs {
        let fm = Module::with_temp_heap(|m| {
            {
                let mut eval = Evaluator::new(&m);
                eval.set_loader(&loader);
                eval.extra = Some(&store);
                let ast = AstModule::parse(name, lsrc.clone(), &Dialect::AllOptionsInternal).expect("lib parses");
                eval.eval_module(ast, &globals).expect("lib evaluates");
            }
            m.freeze().expect("lib freezes")
        });
        loader.modules.insert(name.clone(), fm);
    }
    if gc_always {
        starlark::verif::set_gc_schedule(vec![], true);
    }
    let r = Module::with_temp_heap(|m| {
        let mut eval = Evaluator::new(&m);
        eval.set_loader(&loader);
        eval.extra = Some(&store);
        setup(&mut eval);
        let r = AstModule::parse("prog.star", src.to_owned(), &Dialect::AllOptionsInternal)
            .and_then(|ast| eval.eval_module(ast, &globals));
        match &r {
            Ok(v) => json!({"res": enc::encode(*v), "err": J::Null}),
            Err(e) => {
                let ej = err_json(e);
                json!({"res": J::Null, "err": {"kind": ej["kind"], "msg": ej["msg"]}})
            }
        }
    });
    if gc_always {
        starlark::verif::clear_gc_schedule();
    }
    let mut o = r;
    o["out"] = json!(store.take());
    o
}

fn one(spec: &J) -> J {
    let src = spec["src"].as_str().unwrap().to_owned();
    let cfg = &spec["config"];
    let kind = cfg["kind"].as_str().unwrap();
    let gc = cfg.get("gc").and_then(|x| x.as_bool()) == Some(true);
    match kind {
        "plain" => {
            let libs: Vec<(String, String)> = cfg
                .get("libs")
                .and_then(|l| l.as_array())
                .map(|a| a.iter().map(|x| (x[0].as_str().unwrap().to_owned(), x[1].as_str().unwrap().to_owned())).collect())
                .unwrap_or_default();
            eval_with_libs(&src, &libs, gc, |_| {})
        }
        "profile" => {
            let mode = profile_mode_of(cfg["mode"].as_str().unwrap()).expect("mode");
            let mut o = eval_with(&src, gc, |eval| {
                eval.enable_profile(&mode).expect("enable_profile");
            });
            o["profile"] = J::String(cfg["mode"].as_str().unwrap().to_owned());
            o
        }
        "hook" => {
            let lines = std::sync::Arc::new(std::sync::Mutex::new(Vec::new()));
            let record = cfg["record"].as_bool().unwrap_or(false);
            let l2 = lines.clone();
            let mut o = eval_with(&src, gc, move |eval| {
                eval.before_stmt_for_dap(BeforeStmtFunc::from_dyn(Box::new(RecHook { lines: l2, record })));
            });
            o["stmt_lines"] = json!(lines.lock().unwrap().iter().filter(|x| !x.1).map(|x| x.0).collect::<Vec<_>>());
            o
        }
        "dap" => {
            let (tx, rx) = mpsc::channel::<Msg>();
            let client = Client { tx: std::sync::Mutex::new(tx.clone()) };
            let (adapter, hook) = prepare_dap_adapter(Box::new(client));
            let hook: Box<dyn DapAdapterEvalHook> = Box::new(hook);
            let bps: Vec<(i64, Option<String>)> = cfg["breakpoints"]
                .as_array()
                .map(|a| {
                    a.iter()
                        .map(|b| {
                            if let Some(l) = b.as_i64() {
                                (l, None)
                            } else {
                                (b[0].as_i64().unwrap(), b[1].as_str().map(|s| s.to_owned()))
                            }
                        })
                        .collect()
                })
                .unwrap_or_default();
            let libs: Vec<(String, String)> = cfg
                .get("libs")
                .and_then(|l| l.as_array())
                .map(|a| a.iter().map(|x| (x[0].as_str().unwrap().to_owned(), x[1].as_str().unwrap().to_owned())).collect())
                .unwrap_or_default();
            let mut verified: Vec<bool> = Vec::new();
            // the client's setBreakpoints requests, in order: by default one for prog.star; "bp_calls" gives an explicit
            // sequence [[file, [lines...]], ...] (a file may appear several times, an empty list clears that file)
            let calls: Vec<(String, Vec<(i64, Option<String>)>)> = match cfg.get("bp_calls").and_then(|c| c.as_array()) {
                Some(a) => a
                    .iter()
                    .map(|c| {
                        (
                            c[0].as_str().unwrap().to_owned(),
                            c[1].as_array().unwrap().iter().map(|l| (l.as_i64().unwrap(), None)).collect(),
                        )
                    })
                    .collect(),
                None => vec![("prog.star".to_owned(), bps.clone())],
            };
            for (file, lines) in &calls {
                let fsrc = if file == "prog.star" {
                    src.clone()
                } else {
                    match libs.iter().find(|l| &l.0 == file) {
                        Some(l) => l.1.clone(),
                        None => return json!({"bad_config": format!("no source for {file}")}),
                    }
                };
                let ast = match AstModule::parse(file, fsrc, &Dialect::AllOptionsInternal) {
                    Ok(a) => a,
                    Err(e) => return json!({"parse_error": e.to_string()}),
                };
                let resolved = match resolve_breakpoints(&bp_args(file, lines), &ast) {
                    Ok(r) => r,
                    Err(e) => return json!({"resolve_error": e.to_string()}),
                };
                let resp = resolved.to_response();
                verified.extend(resp.breakpoints.iter().map(|b| b.verified));
                if let Err(e) = adapter.set_breakpoints(file, &resolved) {
                    return json!({"set_breakpoints_error": e.to_string()});
                }
            }
            let mode = cfg["mode"].as_str().unwrap_or("continue").to_owned();
            let first_step = mode != "continue";
            let src2 = src.clone();
            let th = std::thread::Builder::new()
                .stack_size(8 << 20)
                .spawn(move || {
                    let o = eval_with_libs(&src2, &libs, gc, move |eval| {
                        hook.add_dap_hooks(eval);
                    });
                    let _ = tx.send(Msg::Done(o));
                })
                .unwrap();
            // stepping modes need an initial stop: a breakpoint on line 1 is supplied by the orchestrator
            let mut stops: Vec<J> = Vec::new();
            let evals: Vec<String> = cfg
                .get("evaluate")
                .and_then(|e| e.as_array())
                .map(|a| a.iter().map(|x| x.as_str().unwrap().to_owned()).collect())
                .unwrap_or_default();
            let result;
            let mut hang = false;
            loop {
                match rx.recv_timeout(Duration::from_secs(10)) {
                    Ok(Msg::Stopped) => {
                        let tf = adapter.top_frame().ok().flatten();
                        let file = tf.as_ref().and_then(|f| f.source.as_ref()).and_then(|s| s.path.clone()).unwrap_or_default();
                        let line = tf.map(|f| f.line).unwrap_or(-1);
                        let vars: Vec<(String, String)> = adapter
                            .variables(0)
                            .map(|v| v.locals.into_iter().map(|x| (x.name.to_string(), x.value)).collect())
                            .unwrap_or_default();
                        let depth = adapter
                            .stack_trace(debugserver_types::StackTraceArguments { format: None, levels: None, start_frame: None, thread_id: 0 })
                            .map(|s| s.stack_frames.len())
                            .unwrap_or(0);
                        let ev: Vec<J> = evals
                            .iter()
                            .map(|e| match adapter.evaluate(e) {
                                Ok(r) => J::String(r.result),
                                Err(_) => J::Null,
                            })
                            .collect();
                        stops.push(json!({"file": file, "line": line, "vars": vars, "depth": depth, "eval": ev}));
                        if stops.len() > 5000 {
                            hang = true;
                            break;
                        }
                        let r = match mode.as_str() {
                            "step_into" => adapter.step(StepKind::Into),
                            "step_over" => adapter.step(StepKind::Over),
                            "step_out" => adapter.step(StepKind::Out),
                            _ => adapter.continue_(),
                        };
                        if r.is_err() {
                            break;
                        }
                    }
                    Ok(Msg::Done(o)) => {
                        result = Some(o);
                        let _ = th.join();
                        let mut o = result.unwrap();
                        o["stops"] = json!(stops);
                        o["verified"] = json!(verified);
                        let _ = first_step;
                        return o;
                    }
                    Err(_) => {
                        hang = true;
                        break;
                    }
                }
            }
            json!({"hang": hang, "stops": stops, "verified": verified})
        }
        x => json!({"bad_config": x}),
    }
}

thread_local! {
    static _UNUSED: RefCell<()> = const { RefCell::new(()) };
}

pub fn cmd() {
    crate::install_panic_hook();
    use std::io::BufRead;
    use std::io::Write;
    let stdin = std::io::stdin();
    let stdout = std::io::stdout();
    let mut out = std::io::BufWriter::new(stdout.lock());
    for line in stdin.lock().lines() {
        let line = line.unwrap();
        if line.trim().is_empty() {
            continue;
        }
        let spec: J = serde_json::from_str(&line).unwrap();
        let r = panic::catch_unwind(panic::AssertUnwindSafe(|| one(&spec)));
        let mut o = match r {
            Ok(o) => o,
            Err(_) => json!({"panic": crate::take_panic()}),
        };
        o["id"] = spec["id"].clone();
        writeln!(out, "{}", o).unwrap();
        out.flush().unwrap();
        if o.get("hang").and_then(|h| h.as_bool()) == Some(true) {
            // the evaluation thread is stuck: a fresh process is needed for the next spec
            std::process::exit(3);
        }
    }
}
