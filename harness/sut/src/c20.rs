//! C20: frozen modules are safe to share.
//! L2: controlled scheduling of real OS threads (one runs at a time; control changes hands only at the
//!     intercepted points: chunk ref-count atomics, chunk alloc/dealloc, string hash cache, per-thread chunk cache),
//!     exhaustive over all schedules with at most K preemptions (iterative context bounding).
//! L1: operation-granularity interleavings in a fresh process (first-use of process-wide lazies).

use std::cell::Cell;
use std::collections::HashMap;
use std::collections::HashSet;
use std::sync::Arc;
use std::sync::Condvar;
use std::sync::Mutex;
use std::time::Duration;

use dupe::Dupe;
use serde_json::Value as J;
use serde_json::json;
use starlark::environment::FrozenModule;
use starlark::environment::Module;
use starlark::eval::Evaluator;
use starlark::syntax::AstModule;
use starlark::syntax::Dialect;

use crate::enc;
use crate::natives::Store;
use crate::runner::Loader;
use crate::runner::globals_of;

// ---------------------------------------------------------------------------------------------- scheduler

#[derive(Clone, Debug, PartialEq)]
struct Event {
    tid: usize,
    site: &'static str,
    op: &'static str,
    addr: usize, // normalised: index of first appearance
    /// value of the word just before the operation (atomic sites only; not part of the replay comparison)
    val: u32,
}

impl Event {
    fn show(&self) -> String {
        if self.site == "AtomicU32" || self.site == "ChunkRc" {
            format!("T{} {} {} #{} (was {})", self.tid, self.site, self.op, self.addr, self.val)
        } else {
            format!("T{} {} {} #{}", self.tid, self.site, self.op, self.addr)
        }
    }
}

#[derive(Clone, Debug)]
struct Decision {
    current: usize,
    current_enabled: bool,
    enabled: Vec<usize>,
    chosen: usize,
    /// index of the event this decision precedes (None for a thread end)
    event: Option<usize>,
}

struct St {
    n: usize,
    current: usize,
    finished: Vec<bool>,
    choices: Vec<usize>,
    decisions: Vec<Decision>,
    events: Vec<Event>,
    addr_ids: HashMap<usize, usize>,
    addr_threads: HashMap<usize, HashSet<usize>>,
    live_chunks: HashSet<usize>,
    freed_chunks: HashSet<usize>,
    fault: Option<String>,
    /// a thread blocked in `wait_until` is enabled only while its predicate holds
    waiting: Vec<Option<Box<dyn Fn() -> bool + Send>>>,
}

struct Sched {
    st: Mutex<St>,
    /// one condition variable per controlled thread (all used with `st`): a hand-over wakes exactly the next thread
    cvs: Vec<Condvar>,
}

static SCHED: Mutex<Option<Arc<Sched>>> = Mutex::new(None);
/// (id, body, bound, executions so far) of the exploration in progress, for the monitors' immediate report
static CURRENT: Mutex<Option<(J, String, usize, usize)>> = Mutex::new(None);

/// Pre-formatted report line for "the process died on a signal while executing this schedule prefix": the signal handler
/// only write()s it (async-signal-safe) and leaves, so that a hard crash still yields a replayable schedule.
static CRASH_LINE: std::sync::atomic::AtomicPtr<Vec<u8>> = std::sync::atomic::AtomicPtr::new(std::ptr::null_mut());

extern "C" fn crash_handler(sig: libc::c_int) {
    let p = CRASH_LINE.load(std::sync::atomic::Ordering::SeqCst);
    unsafe {
        if !p.is_null() {
            let v: &Vec<u8> = &*p;
            libc::write(1, v.as_ptr() as *const libc::c_void, v.len());
            libc::_exit(0);
        }
        libc::signal(sig, libc::SIG_DFL);
        libc::raise(sig);
    }
}

fn set_crash_line(line: Option<String>) {
    let new = match line {
        Some(l) => Box::into_raw(Box::new(format!("{l}\n").into_bytes())),
        None => std::ptr::null_mut(),
    };
    let old = CRASH_LINE.swap(new, std::sync::atomic::Ordering::SeqCst);
    if !old.is_null() {
        drop(unsafe { Box::from_raw(old) });
    }
}

fn install_crash_handler() {
    unsafe {
        for sig in [libc::SIGSEGV, libc::SIGBUS, libc::SIGABRT, libc::SIGILL] {
            libc::signal(sig, crash_handler as extern "C" fn(libc::c_int) as usize);
        }
    }
}

/// A memory-safety monitor fired: going on would be undefined behaviour (and typically ends in an allocator abort that
/// hides the schedule), so report the violation with the schedule so far and leave the process.
fn monitor_abort(st: &St, fault: &str) -> ! {
    use std::io::Write;
    let cur = CURRENT.lock().unwrap().clone();
    let (id, body, bound, execs) = cur.unwrap_or((J::Null, String::new(), 0, 0));
    let events: Vec<String> = st.events.iter().map(|e| e.show()).collect();
    let o = json!({"id": id, "body": body, "bound": bound, "schedules": execs + 1, "max_points": st.decisions.len(),
                   "distinct_outcomes": 0, "addresses_touched_by_several_threads": st.addr_threads.values().filter(|v| v.len() > 1).count(),
                   "capped": false, "aborted_by_monitor": true,
                   "violation": {"fault": fault, "schedule": st.decisions.iter().map(|d| d.chosen).collect::<Vec<_>>(), "events": events}});
    // the main thread holds the stdout lock for the whole command loop: write to the descriptor directly
    let line = format!("{}\n", o);
    let mut f = unsafe { <std::fs::File as std::os::fd::FromRawFd>::from_raw_fd(1) };
    let _ = f.write_all(line.as_bytes());
    let _ = f.flush();
    unsafe { libc::_exit(0) }
}

thread_local! {
    static TID: Cell<Option<usize>> = const { Cell::new(None) };
}

fn sched() -> Option<Arc<Sched>> {
    SCHED.lock().unwrap().as_ref().map(|s| s.dupe())
}

impl Sched {
    fn pick_next(st: &mut St, tid: usize, thread_end: bool) -> usize {
        let enabled: Vec<usize> = (0..st.n).filter(|i| !st.finished[*i] && st.waiting[*i].as_ref().is_none_or(|p| p())).collect();
        if enabled.is_empty() {
            if st.finished.iter().any(|f| !*f) {
                st.fault = Some("deadlock: every unfinished thread is blocked".to_owned());
            }
            return usize::MAX;
        }
        let step = st.decisions.len();
        let cur_enabled = !thread_end && enabled.contains(&tid);
        let chosen = if step < st.choices.len() {
            st.choices[step]
        } else if cur_enabled {
            tid
        } else {
            enabled[0]
        };
        if !enabled.contains(&chosen) {
            st.fault = Some(format!("replay divergence: decision {step} chooses thread {chosen} which is not enabled {enabled:?}"));
            return enabled[0];
        }
        let event = if thread_end { None } else { Some(st.events.len() - 1) };
        st.decisions.push(Decision { current: tid, current_enabled: cur_enabled, enabled, chosen, event });
        chosen
    }

    fn point(&self, tid: usize, site: &'static str, addr: usize, op: &'static str) {
        let mut st = self.st.lock().unwrap();
        // monitors
        if site == "Chunk" {
            if op == "alloc" {
                st.live_chunks.insert(addr);
                st.freed_chunks.remove(&addr);
            } else if op == "dealloc" {
                if !st.live_chunks.remove(&addr) && st.freed_chunks.contains(&addr) {
                    monitor_abort(&st, &format!("double free of chunk {addr:#x}"));
                }
                st.freed_chunks.insert(addr);
            }
        } else if site == "ChunkRc" && st.freed_chunks.contains(&addr) {
            // only ref-count operations are judged: the address of a freed chunk may legitimately be reused by an
            // unrelated allocation (e.g. a string hash cell in an arena), and that is not a use after free
            monitor_abort(&st, &format!("{op} on the reference count of freed chunk {addr:#x} (use after free)"));
        }
        let next_id = st.addr_ids.len();
        let id = *st.addr_ids.entry(addr).or_insert(next_id);
        if site != "PerThreadChunkCache" {
            // (the chunk cache is a thread_local!: its points are reported with address 0 and are never shared)
            st.addr_threads.entry(addr).or_default().insert(tid);
        }
        let val = if site == "AtomicU32" || site == "ChunkRc" {
            unsafe { (*(addr as *const std::sync::atomic::AtomicU32)).load(std::sync::atomic::Ordering::Relaxed) }
        } else {
            0
        };
        static SHOW_STRINGS: std::sync::OnceLock<bool> = std::sync::OnceLock::new();
        if site == "AtomicU32" && *SHOW_STRINGS.get_or_init(|| std::env::var_os("VERIF_C20_STRINGS").is_some()) {
            // debugging aid: the hash cell is the first word of StarlarkStrN { hash, len, body }
            let len = unsafe { *((addr + 4) as *const u32) } as usize;
            let bytes = unsafe { std::slice::from_raw_parts((addr + 8) as *const u8, len.min(40)) };
            eprintln!("cell #{id} = {:?}", String::from_utf8_lossy(bytes));
        }
        st.events.push(Event { tid, site, op, addr: id, val });
        let next = Self::pick_next(&mut st, tid, false);
        if next != tid {
            st.current = next;
            self.cvs[next].notify_one();
            while st.current != tid {
                let (g, to) = self.cvs[tid].wait_timeout(st, Duration::from_secs(20)).unwrap();
                st = g;
                if to.timed_out() {
                    st.fault = Some("scheduler timeout (uncontrolled blocking?)".to_owned());
                    return;
                }
            }
        }
    }

    /// Blocking wait (models a channel receive / join): the caller is disabled until `pred` holds.
    fn block(&self, tid: usize, pred: Box<dyn Fn() -> bool + Send>) {
        let mut st = self.st.lock().unwrap();
        st.waiting[tid] = Some(pred);
        st.events.push(Event { tid, site: "Wait", op: "block", addr: 0, val: 0 });
        let next = Self::pick_next(&mut st, tid, false);
        if next == usize::MAX {
            st.waiting[tid] = None;
            return;
        }
        if next != tid {
            st.current = next;
            self.cvs[next].notify_one();
            while st.current != tid {
                let (g, to) = self.cvs[tid].wait_timeout(st, Duration::from_secs(20)).unwrap();
                st = g;
                if to.timed_out() {
                    st.fault = Some("scheduler timeout (uncontrolled blocking?)".to_owned());
                    break;
                }
            }
        }
        st.waiting[tid] = None;
    }

    fn thread_start(&self, tid: usize) {
        let mut st = self.st.lock().unwrap();
        while st.current != tid {
            let (g, to) = self.cvs[tid].wait_timeout(st, Duration::from_secs(20)).unwrap();
            st = g;
            if to.timed_out() {
                st.fault = Some("scheduler timeout at thread start".to_owned());
                return;
            }
        }
    }

    fn thread_end(&self, tid: usize) {
        let mut st = self.st.lock().unwrap();
        st.finished[tid] = true;
        let next = Self::pick_next(&mut st, tid, true);
        st.current = next;
        if next != usize::MAX {
            self.cvs[next].notify_one();
        }
    }
}

fn hook(site: &'static str, addr: usize, op: &'static str) {
    if let Some(tid) = TID.with(|t| t.get()) {
        if let Some(s) = sched() {
            s.point(tid, site, addr, op);
        }
    }
}

/// Block the calling controlled thread until `pred` holds (the predicate is evaluated by the scheduler).
fn wait_until(pred: Box<dyn Fn() -> bool + Send>) {
    match (TID.with(|t| t.get()), sched()) {
        (Some(tid), Some(s)) => s.block(tid, pred),
        _ => {
            while !pred() {
                std::thread::yield_now();
            }
        }
    }
}

struct Exec {
    decisions: Vec<Decision>,
    events: Vec<Event>,
    results: Vec<String>,
    fault: Option<String>,
    shared_addrs: usize,
    /// normalised ids of the intercepted words touched by more than one thread in this execution
    shared_ids: HashSet<usize>,
}

type Body = Box<dyn FnOnce() -> String + Send>;

fn run_schedule(bodies: Vec<Body>, choices: &[usize]) -> Exec {
    let n = bodies.len();
    let s = Arc::new(Sched {
        st: Mutex::new(St {
            n,
            current: if choices.is_empty() { 0 } else { 0 },
            finished: vec![false; n],
            choices: choices.to_vec(),
            decisions: vec![],
            events: vec![],
            addr_ids: HashMap::new(),
            addr_threads: HashMap::new(),
            live_chunks: HashSet::new(),
            freed_chunks: HashSet::new(),
            fault: None,
            waiting: (0..n).map(|_| None).collect(),
        }),
        cvs: (0..n).map(|_| Condvar::new()).collect(),
    });
    *SCHED.lock().unwrap() = Some(s.dupe());
    starlark::verif::sync::set_point_hook(Some(hook));
    let mut handles = vec![];
    for (tid, b) in bodies.into_iter().enumerate() {
        let s2 = s.dupe();
        handles.push(
            std::thread::Builder::new()
                .stack_size(4 << 20)
                .spawn(move || {
                    TID.with(|t| t.set(Some(tid)));
                    s2.thread_start(tid);
                    let r = std::panic::catch_unwind(std::panic::AssertUnwindSafe(b));
                    // empty the thread-local chunk cache while still under control
                    starlark::verif::flush_thread_chunk_cache();
                    s2.thread_end(tid);
                    TID.with(|t| t.set(None));
                    match r {
                        Ok(x) => x,
                        Err(_) => format!("PANIC: {}", crate::take_panic()),
                    }
                })
                .unwrap(),
        );
    }
    let results: Vec<String> = handles.into_iter().map(|h| h.join().unwrap_or_else(|_| "JOIN-PANIC".to_owned())).collect();
    starlark::verif::sync::set_point_hook(None);
    *SCHED.lock().unwrap() = None;
    let st = s.st.lock().unwrap();
    Exec {
        decisions: st.decisions.clone(),
        events: st.events.clone(),
        results,
        fault: st.fault.clone(),
        shared_addrs: st.addr_threads.values().filter(|v| v.len() > 1).count(),
        shared_ids: st.addr_threads.iter().filter(|(_, v)| v.len() > 1).filter_map(|(a, _)| st.addr_ids.get(a).copied()).collect(),
    }
}

// ---------------------------------------------------------------------------------------------- bodies

fn eval_frozen(name: &str, src: &str, loads: &[(&str, &FrozenModule)]) -> FrozenModule {
    let store = Store::default();
    let mut loader = Loader { modules: HashMap::new() };
    for (n, m) in loads {
        loader.modules.insert((*n).to_owned(), (*m).dupe());
    }
    Module::with_temp_heap(|m| {
        {
            let mut eval = Evaluator::new(&m);
            eval.set_loader(&loader);
            eval.extra = Some(&store);
            let ast = AstModule::parse(name, src.to_owned(), &Dialect::AllOptionsInternal).unwrap();
            eval.eval_module(ast, &globals_of("ext")).unwrap();
        }
        m.freeze().unwrap()
    })
}

fn eval_transcript(src: &str, loads: &[(&str, &FrozenModule)]) -> String {
    let store = Store::default();
    let mut loader = Loader { modules: HashMap::new() };
    for (n, m) in loads {
        loader.modules.insert((*n).to_owned(), (*m).dupe());
    }
    let r = Module::with_temp_heap(|m| {
        let mut eval = Evaluator::new(&m);
        eval.set_loader(&loader);
        eval.extra = Some(&store);
        let ast = AstModule::parse("t.star", src.to_owned(), &Dialect::AllOptionsInternal).unwrap();
        match eval.eval_module(ast, &globals_of("ext")) {
            Ok(v) => format!("ok:{}", enc::encode(v)),
            Err(e) => format!("err:{}", e.without_diagnostic()),
        }
    });
    format!("{}|{}", store.take().join(";"), r)
}

fn observe_module(m: &FrozenModule) -> String {
    let mut names: Vec<String> = m.names().map(|n| n.as_str().to_owned()).collect();
    names.sort();
    names
        .iter()
        .filter_map(|n| m.get_owned(n).ok().map(|h| format!("{n}={}", h.by_ref(|v| enc::encode(*v)))))
        .collect::<Vec<_>>()
        .join(";")
}

const SRC_A: &str = "def fe(n):\n    l = []\n    for x in l:\n        pass\n    l.append(n)\n    return l\nA = ['a' * 5, [1, 2, ('t', 3)], {'k': 'v' * 3}]\nSA = ['alpha'] + [x * 3 for x in ['be', 'gamma', 'de']]\ndef fa(x):\n    return [x, A[0], len(SA)]\n";
const SRC_B: &str = "B = ['b' * 7, {'x': [9, 8]}, (1, 2)]\nSB = ['one', 'two', 'three' * 2]\ndef fb(x):\n    return [x, B[1]]\n";

/// Two frozen heaps built back to back on one (temporary) thread, so that the second reuses the chunk remainder the
/// first released to that thread's cache.
fn two_sharing_heaps() -> (FrozenModule, FrozenModule) {
    std::thread::spawn(|| {
        let a = eval_frozen("a.star", SRC_A, &[]);
        let b = eval_frozen("b.star", SRC_B, &[]);
        (a, b)
    })
    .join()
    .unwrap()
}

fn bodies(name: &str) -> Vec<Body> {
    match name {
        // (a) heaps sharing a chunk are dropped / read / rebuilt on different threads
        "chunk_share" => {
            let (a, b) = two_sharing_heaps();
            vec![
                Box::new(move || {
                    let o = observe_module(&b);
                    drop(b);
                    let c = eval_frozen("c.star", "C = ['c' * 9, [1]]\n", &[]);
                    format!("{o}#{}", observe_module(&c))
                }),
                Box::new(move || {
                    let o = observe_module(&a);
                    drop(a);
                    o
                }),
            ]
        }
        // (b) three threads: two drop the sharing heaps, a third allocates and frees frozen heaps meanwhile
        "chunk_share3" => {
            let (a, b) = two_sharing_heaps();
            vec![
                Box::new(move || {
                    drop(a);
                    "dropped-a".to_owned()
                }),
                Box::new(move || {
                    let o = observe_module(&b);
                    drop(b);
                    o
                }),
                Box::new(move || {
                    let c = eval_frozen("c.star", "C = ['c' * 9, [1]]\nD = {'q': 'r' * 4}\n", &[]);
                    let o = observe_module(&c);
                    drop(c);
                    o
                }),
            ]
        }
        // (c) the same frozen strings are hashed / used as dict keys for the first time on several threads
        "str_hash" => {
            let (a, _b) = two_sharing_heaps();
            let prog = "load('a.star', 'SA', 'A')\nd = {s: i for i, s in enumerate(SA)}\nemit([hash(s) for s in SA])\nemit([d[s] for s in SA])\nemit([key_hash(s) for s in SA])\nemit({A[0]: 1}.get('aaaaa'))\nemit('gammagammagamma' in d)\n";
            let mk = |m: FrozenModule| -> Body { Box::new(move || eval_transcript(prog, &[("a.star", &m)])) };
            vec![mk(a.dupe()), mk(a.dupe()), mk(a)]
        }
        // (c') two threads, two strings: small enough for the quick tier at bound 2
        "str_hash2" => {
            let (a, _b) = two_sharing_heaps();
            let prog = "load('a.star', 'SA')\nd = {SA[2]: 1}\nemit([hash(SA[1]), key_hash(SA[2]), d[SA[2]]])\nemit('gammagammagamma' in d)\n";
            let mk = |m: FrozenModule| -> Body { Box::new(move || eval_transcript(prog, &[("a.star", &m)])) };
            vec![mk(a.dupe()), mk(a)]
        }
        // (d) a module loading a shared one is built, frozen and dropped while another thread calls the shared functions
        "load_freeze_drop" => {
            let (a, b) = two_sharing_heaps();
            let a2 = a.dupe();
            vec![
                Box::new(move || {
                    let m = eval_frozen("m.star", "load('a.star', 'A', 'fa')\nload('b.star', 'fb')\nM = [A, fa(1), fb(2)]\ndef fm():\n    return M\n",
                                        &[("a.star", &a), ("b.star", &b)]);
                    drop(a);
                    drop(b);
                    let o = observe_module(&m);
                    drop(m);
                    o
                }),
                Box::new(move || {
                    let o = eval_transcript("load('a.star', 'fa', 'SA')\nemit(fa('z'))\nemit(sorted(SA))\n", &[("a.star", &a2)]);
                    drop(a2);
                    o
                }),
            ]
        }
        // (f) first use of the process-wide statically allocated one-byte strings as dict keys on several threads
        //     (their lazily cached hash is reset to "not computed" before every execution)
        "static_hash" | "static_hash3" => {
            starlark::verif::reset_static_string_hashes();
            let prog = "k = 'pq'.elems()\nd = {c: n for n, c in enumerate(k)}\nemit([d[c] for c in k])\nemit([key_hash(c) for c in k])\nemit(['p' in d, 'q' in d, d.get('p'), {'q': 5}['q']])\n";
            let mk = || -> Body { Box::new(move || eval_transcript(prog, &[])) };
            if name == "static_hash3" { vec![mk(), mk(), mk()] } else { vec![mk(), mk()] }
        }
        // (e) a heap is built on X and handed to Y; X then builds further heaps out of the cached remainder of the same chunk
        //     (ref-count increments on X) while Y reads and drops the first heap (decrement on Y)
        "handoff" | "handoff3" | "handoff_rebuild" => {
            let slot: Arc<Mutex<Option<FrozenModule>>> = Arc::new(Mutex::new(None));
            let (s1, s2, s3) = (slot.dupe(), slot.dupe(), slot.dupe());
            let three = name == "handoff3";
            // handoff_rebuild: Y, after dropping H0 (whose chunk part lands in Y's cache), builds a small heap of its own out of
            // that part - so BOTH threads carve (clone) the same chunk
            let rebuild = name == "handoff_rebuild";
            let mut v: Vec<Body> = vec![
                Box::new(move || {
                    let h0 = eval_frozen("a.star", SRC_A, &[]);
                    *s1.lock().unwrap() = Some(h0);
                    let h1 = eval_frozen("b.star", SRC_B, &[]);
                    let h2 = eval_frozen("c.star", "C = ['c' * 9, [1]]\n", &[]);
                    let o = format!("{}#{}", observe_module(&h1), observe_module(&h2));
                    drop(h1);
                    drop(h2);
                    o
                }),
                Box::new(move || {
                    wait_until(Box::new(move || s2.lock().unwrap().is_some()));
                    let h0 = s3.lock().unwrap().take().unwrap();
                    let o = observe_module(&h0);
                    drop(h0);
                    if rebuild {
                        let h3 = eval_frozen("d.star", "D = ['d' * 3]\n", &[]);
                        let h4 = eval_frozen("e.star", "E = [1]\n", &[]);
                        let o2 = format!("{o}#{}#{}", observe_module(&h3), observe_module(&h4));
                        drop(h3);
                        drop(h4);
                        return o2;
                    }
                    o
                }),
            ];
            if three {
                v.push(Box::new(move || {
                    let c = eval_frozen("d.star", "D = {'q': 'r' * 4}\n", &[]);
                    let o = observe_module(&c);
                    drop(c);
                    o
                }));
            }
            v
        }
        x => panic!("unknown body {x}"),
    }
}

// ---------------------------------------------------------------------------------------------- explorer

fn preemptions(ds: &[Decision]) -> usize {
    ds.iter().filter(|d| d.current_enabled && d.chosen != d.current).count()
}

fn is_write(e: &Event) -> bool {
    e.op != "load"
}

/// For every event: does a later event of another thread conflict with it?
fn later_conflict(events: &[Event]) -> Vec<bool> {
    let mut out = vec![false; events.len()];
    let mut later_writers: HashMap<usize, HashSet<usize>> = HashMap::new();
    let mut later_accessors: HashMap<usize, HashSet<usize>> = HashMap::new();
    for (i, e) in events.iter().enumerate().rev() {
        if e.site == "Wait" {
            out[i] = true;
            continue;
        }
        if e.site == "PerThreadChunkCache" {
            continue;
        }
        let other = |m: &HashMap<usize, HashSet<usize>>| m.get(&e.addr).is_some_and(|s| s.iter().any(|t| *t != e.tid));
        out[i] = if is_write(e) { other(&later_accessors) } else { other(&later_writers) };
        later_accessors.entry(e.addr).or_default().insert(e.tid);
        if is_write(e) {
            later_writers.entry(e.addr).or_default().insert(e.tid);
        }
    }
    out
}

struct Explorer {
    body: String,
    bound: usize,
    executions: usize,
    max_points: usize,
    outcomes: HashSet<Vec<String>>,
    shared_max: usize,
    violation: Option<J>,
    cap: usize,
    capped: bool,
    /// (i, n): at the root only the alternatives with index % n == i are explored (parallel partition of the search)
    split: Option<(usize, usize)>,
    /// partial-order reduction: preempt only before operations on words that several threads touch in that execution
    reduce: bool,
}

impl Explorer {
    fn explore(&mut self, prefix: Vec<usize>, prefix_events: Vec<Event>, reference: &[String]) {
        if self.violation.is_some() || self.capped {
            return;
        }
        if self.executions >= self.cap {
            self.capped = true;
            return;
        }
        if let Some(c) = CURRENT.lock().unwrap().as_mut() {
            c.3 = self.executions;
            set_crash_line(Some(
                json!({"id": c.0, "body": c.1, "bound": c.2, "schedules": self.executions + 1, "max_points": self.max_points,
                       "distinct_outcomes": self.outcomes.len(), "addresses_touched_by_several_threads": self.shared_max,
                       "capped": false, "crashed_in_schedule": true,
                       "violation": {"fault": "the process died on a signal (SIGSEGV/SIGABRT/SIGBUS) while executing this schedule prefix (default continuation after it)",
                                     "schedule": prefix, "events": []}})
                .to_string(),
            ));
        }
        let x = run_schedule(bodies(&self.body), &prefix);
        set_crash_line(None);
        self.executions += 1;
        self.max_points = self.max_points.max(x.decisions.len());
        self.shared_max = self.shared_max.max(x.shared_addrs);
        // replaying a prefix must reproduce the same events
        let k = prefix_events.len().min(x.events.len());
        if x.events[..k].iter().map(|e| (e.tid, e.site, e.op)).ne(prefix_events[..k].iter().map(|e| (e.tid, e.site, e.op))) {
            self.violation = Some(json!({"machinery": "nondeterministic replay", "prefix": prefix}));
            return;
        }
        if let Some(f) = &x.fault {
            let mach = f.starts_with("replay") || f.starts_with("scheduler timeout");
            self.violation = Some(json!({if mach { "machinery" } else { "fault" }: f, "schedule": x.decisions.iter().map(|d| d.chosen).collect::<Vec<_>>(),
                                         "events": x.events.iter().map(|e| e.show()).collect::<Vec<_>>()}));
            return;
        }
        self.outcomes.insert(x.results.clone());
        if x.results != reference {
            self.violation = Some(json!({"differs": {"expected": reference, "got": x.results},
                                         "schedule": x.decisions.iter().map(|d| d.chosen).collect::<Vec<_>>(),
                                         "events": x.events.iter().map(|e| e.show()).collect::<Vec<_>>()}));
            return;
        }
        let chosen: Vec<usize> = x.decisions.iter().map(|d| d.chosen).collect();
        let at_root = prefix.is_empty();
        let mut alt_index = 0usize;
        // partial-order reduction: delaying an operation can only matter if a LATER operation of another thread conflicts
        // with it (same word, at least one of the two writes); two reads commute, thread-private words commute with all
        let relevant: Vec<bool> = if self.reduce { later_conflict(&x.events) } else { vec![] };
        for i in prefix.len()..x.decisions.len() {
            let d = &x.decisions[i];
            if self.reduce {
                if let Some(e) = d.event {
                    if !relevant.get(e).copied().unwrap_or(true) {
                        continue;
                    }
                }
            }
            let before = preemptions(&x.decisions[..i]);
            for &alt in &d.enabled {
                if alt == d.chosen {
                    continue;
                }
                let cost = before + if d.current_enabled && alt != d.current { 1 } else { 0 };
                if cost > self.bound {
                    continue;
                }
                if at_root {
                    alt_index += 1;
                    if let Some((k, n)) = self.split {
                        if (alt_index - 1) % n != k {
                            continue;
                        }
                    }
                }
                let mut p = chosen[..i].to_vec();
                p.push(alt);
                // events up to decision i are those of this run (decision i happens after event i for points; thread ends add decisions without events)
                let ev: Vec<Event> = x.events.iter().take(i.min(x.events.len())).cloned().collect();
                self.explore(p, ev, reference);
                if self.violation.is_some() || self.capped {
                    return;
                }
            }
        }
    }
}

fn l2(spec: &J) -> J {
    let body = spec["body"].as_str().unwrap().to_owned();
    let bound = spec["bound"].as_u64().unwrap_or(2) as usize;
    // force process-wide lazies before any controlled thread exists
    let _ = globals_of("ext");
    let _ = eval_transcript("emit([hash('x'), sorted(['b', 'a']), {'k': 1}])\nR = record(a = int)\nE = enum('p')\n", &[]);
    if let Some(sch) = spec.get("replay").and_then(|r| r.as_array()) {
        let choices: Vec<usize> = sch.iter().map(|x| x.as_u64().unwrap() as usize).collect();
        let x = run_schedule(bodies(&body), &choices);
        return json!({"id": spec["id"], "results": x.results, "fault": x.fault,
                      "events": x.events.iter().map(|e| e.show()).collect::<Vec<_>>()});
    }
    // reference: the default schedule run twice (thread 0 to completion, then 1, ...): must agree with itself
    // warm-up: process-wide lazily cached state (hash cells of static strings, method tables) settles during the first runs
    let _ = run_schedule(bodies(&body), &[]);
    let _ = run_schedule(bodies(&body), &[]);
    let r1 = run_schedule(bodies(&body), &[]);
    let r2 = run_schedule(bodies(&body), &[]);
    if r1.fault.is_some() || r1.results != r2.results || r1.events.len() != r2.events.len() {
        return json!({"id": spec["id"], "body": body, "machinery": "reference run not reproducible",
                      "r1": r1.results, "r2": r2.results, "fault": r1.fault, "e1": r1.events.len(), "e2": r2.events.len()});
    }
    let mut ex = Explorer {
        body: body.clone(),
        bound,
        executions: 0,
        max_points: 0,
        outcomes: HashSet::new(),
        shared_max: 0,
        violation: None,
        cap: spec["cap"].as_u64().unwrap_or(200000) as usize,
        capped: false,
        reduce: spec.get("reduce").and_then(|r| r.as_bool()).unwrap_or(false),
        split: spec.get("split").and_then(|s| s.as_array()).map(|a| (a[0].as_u64().unwrap() as usize, a[1].as_u64().unwrap() as usize)),
    };
    *CURRENT.lock().unwrap() = Some((spec["id"].clone(), body.clone(), bound, 0));
    install_crash_handler();
    ex.explore(vec![], vec![], &r1.results);
    *CURRENT.lock().unwrap() = None;
    json!({"id": spec["id"], "body": body, "bound": bound, "schedules": ex.executions, "max_points": ex.max_points,
           "distinct_outcomes": ex.outcomes.len(), "addresses_touched_by_several_threads": ex.shared_max,
           "capped": ex.capped, "violation": ex.violation, "reference": r1.results,
           "sample_events": r1.events.iter().take(12).map(|e| e.show()).collect::<Vec<_>>()})
}

// ---------------------------------------------------------------------------------------------- L1

fn l1_op(op: &str, shared: &FrozenModule, slot: &Mutex<Option<FrozenModule>>) -> String {
    match op {
        "globals_std" => format!("{}", starlark::environment::Globals::standard().names().count()),
        "globals_ext" => format!("{}", globals_of("ext").names().count()),
        "load_call" => eval_transcript("load('a.star', 'fa', 'A')\nemit(fa(1))\nemit(A)\n", &[("a.star", shared)]),
        "hash_values" => eval_transcript("load('a.star', 'SA', 'A')\nemit([hash(s) for s in SA])\nemit([key_hash(s) for s in SA])\nemit({s: 1 for s in SA})\nemit(str(A))\nemit(json.encode(A))\n", &[("a.star", shared)]),
        "build_freeze_drop" => {
            let m = eval_frozen("m.star", "load('a.star', 'A')\nM = [A, 'm' * 4]\n", &[("a.star", shared)]);
            observe_module(&m)
        }
        "build_and_publish" => {
            let m = eval_frozen("p.star", "P = ['p' * 6, [1, 2]]\n", &[]);
            let o = observe_module(&m);
            *slot.lock().unwrap() = Some(m);
            o
        }
        "take_and_drop" => match slot.lock().unwrap().take() {
            Some(m) => {
                let o = observe_module(&m);
                drop(m);
                o
            }
            None => "P=L#0[s\"pppppp\",L#1[i1,i2]]".to_owned(),
        },
        // empty mutable lists (all backed by one statically allocated empty array) iterated and then mutated, inside a frozen
        // function of the shared module and in fresh code
        "empty_iter" => eval_transcript("load('a.star', 'fe')\ndef g(n):\n    l = []\n    for x in l:\n        pass\n    r = [y for y in l] + sorted(l)\n    l.append(n)\n    r.append(n)\n    return [l, r]\nemit([fe(i) for i in range(40)])\nemit([g(i) for i in range(40)])\n", &[("a.star", shared)]),
        "iter_shared" => eval_transcript("load('a.star', 'A', 'SA')\nemit([x for x in A])\nemit(sorted(SA, reverse = True))\nemit({k: v for k, v in A[2].items()})\nemit([len(s) for s in SA] + [i for i, _ in enumerate(A[1])])\n", &[("a.star", shared)]),
        "record_enum" => eval_transcript("R = record(a = int)\nE = enum('x', 'y')\nemit([R(a = 1), E('y'), isinstance(R(a = 2), R)])\n", &[]),
        "type_compiled" => eval_transcript("load('a.star', 'A')\nemit([isinstance(A, list[typing.Any]), isinstance(A[1], list[int | tuple])])\n", &[("a.star", shared)]),
        x => panic!("unknown op {x}"),
    }
}

fn l1(spec: &J) -> J {
    // the shared module is built by the main thread WITHOUT touching Globals::standard / extended first-use paths more than needed
    let shared = eval_frozen("a.star", SRC_A, &[]);
    let threads: Vec<Vec<String>> = spec["threads"].as_array().unwrap().iter()
        .map(|t| t.as_array().unwrap().iter().map(|o| o.as_str().unwrap().to_owned()).collect()).collect();
    let order: Vec<usize> = spec["order"].as_array().unwrap().iter().map(|x| x.as_u64().unwrap() as usize).collect();
    let turn = Arc::new((Mutex::new(0usize), Condvar::new()));
    let slot = Arc::new(Mutex::new(None));
    let order = Arc::new(order);
    let mut hs = vec![];
    for (tid, ops) in threads.into_iter().enumerate() {
        let turn = turn.dupe();
        let order = order.dupe();
        let shared = shared.dupe();
        let slot = slot.dupe();
        hs.push(std::thread::spawn(move || {
            let mut out = vec![];
            for op in ops {
                let (m, cv) = &*turn;
                let mut g = m.lock().unwrap();
                while order.get(*g) != Some(&tid) {
                    let (g2, to) = cv.wait_timeout(g, Duration::from_secs(20)).unwrap();
                    g = g2;
                    if to.timed_out() {
                        return vec!["TIMEOUT".to_owned()];
                    }
                }
                drop(g);
                let r = std::panic::catch_unwind(std::panic::AssertUnwindSafe(|| l1_op(&op, &shared, &slot)))
                    .unwrap_or_else(|_| format!("PANIC: {}", crate::take_panic()));
                out.push(r);
                let mut g = m.lock().unwrap();
                *g += 1;
                cv.notify_all();
            }
            out
        }));
    }
    drop(shared);
    let results: Vec<Vec<String>> = hs.into_iter().map(|h| h.join().unwrap_or_else(|_| vec!["JOIN-PANIC".to_owned()])).collect();
    json!({"id": spec["id"], "results": results})
}

/// Supplementary, NOT exhaustive: the operation alphabet under true parallelism (free-running OS threads). Effects of plain-memory
/// data races cannot be interleaved by the controlled scheduler (it only switches at intercepted operations); this pass gives
/// them a chance to show as a wrong result or a crash. Sampled: it can only add (true) alarms, never decides the property.
fn free(spec: &J) -> J {
    let shared = eval_frozen("a.star", SRC_A, &[]);
    let ops: Vec<String> = spec["ops"].as_array().unwrap().iter().map(|o| o.as_str().unwrap().to_owned()).collect();
    let threads = spec["threads"].as_u64().unwrap_or(8) as usize;
    let rounds = spec["rounds"].as_u64().unwrap_or(50) as usize;
    let slot = Arc::new(Mutex::new(None));
    // solo results, one thread
    let solo: Vec<String> = ops.iter().map(|op| l1_op(op, &shared, &slot)).collect();
    *slot.lock().unwrap() = None;
    let solo = Arc::new(solo);
    let ops = Arc::new(ops);
    let barrier = Arc::new(std::sync::Barrier::new(threads));
    let mut hs = vec![];
    for t in 0..threads {
        let (shared, slot, solo, ops, barrier) = (shared.dupe(), slot.dupe(), solo.dupe(), ops.dupe(), barrier.dupe());
        hs.push(std::thread::Builder::new().stack_size(8 << 20).spawn(move || -> Option<J> {
            barrier.wait();
            let mut n = 0usize;
            for r in 0..rounds {
                for k in 0..ops.len() {
                    let i = (k + t + r) % ops.len();
                    let got = std::panic::catch_unwind(std::panic::AssertUnwindSafe(|| l1_op(&ops[i], &shared, &slot)))
                        .unwrap_or_else(|_| format!("PANIC: {}", crate::take_panic()));
                    n += 1;
                    if got != solo[i] {
                        return Some(json!({"thread": t, "round": r, "op": ops[i], "solo": solo[i], "got": got, "operations_before": n}));
                    }
                }
            }
            None
        }).unwrap());
    }
    drop(shared);
    let mut bad = vec![];
    for h in hs {
        match h.join() {
            Ok(Some(b)) => bad.push(b),
            Ok(None) => {}
            Err(_) => bad.push(json!({"join": "panic"})),
        }
    }
    json!({"id": spec["id"], "free": true, "threads": threads, "rounds": rounds, "operations": threads * rounds * ops.len(), "mismatches": bad})
}

pub fn cmd() {
    crate::install_panic_hook();
    use std::io::BufRead;
    use std::io::Write;
    let stdin = std::io::stdin();
    let stdout = std::io::stdout();
    let mut out = std::io::BufWriter::new(stdout.lock());
    for line in stdin.lock().lines() {
        let line = line.unwrap();
        if line.trim().is_empty() {
            continue;
        }
        let spec: J = serde_json::from_str(&line).unwrap();
        let o = if spec["layer"] == "l1" {
            l1(&spec)
        } else if spec["layer"] == "free" {
            free(&spec)
        } else {
            l2(&spec)
        };
        writeln!(out, "{}", o).unwrap();
        out.flush().unwrap();
    }
}
