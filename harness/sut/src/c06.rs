//! C06: parse to canonical S-expression (compared with CPython's ast by the orchestrator) and
//! print/parse round trip.

use std::panic;

use serde_json::Value as J;
use serde_json::json;
use starlark::syntax::AstModule;

use crate::astwalk::Walk;
use crate::runner::dialect_of;

fn sexpr_of(m: &AstModule, src: &str) -> String {
    let mut w = Walk::new(src, false);
    w.module(m.statement());
    w.sexpr
}

/// f-strings print as their `.format` desugaring: normalise `(fstring "a{}b" X Y)` so both sides agree.
fn normalise_fstrings(s: &str) -> String {
    // (fstring "FMT" ARGS...)  ==>  (call (dot (str "FMT") format) (pos ARG)...)
    // Done structurally on the printed side instead: the orchestrator only needs equality of the
    // round-tripped tree with the tree of the printed text, so we compare print(parse(p1)) == p1 and
    // sexpr(parse(p1)) == sexpr(parse(print(parse(p1)))) for f-string programs.
    s.to_owned()
}

fn one(spec: &J) -> J {
    let src = spec["src"].as_str().unwrap();
    let d = dialect_of(spec.get("dialect").and_then(|x| x.as_str()).unwrap_or("all"));
    let m = match AstModule::parse("t.star", src.to_owned(), &d) {
        Err(e) => return json!({"id": spec["id"], "ok": false, "err": format!("{}", e.without_diagnostic())}),
        Ok(m) => m,
    };
    let s0 = sexpr_of(&m, src);
    let mut out = json!({"id": spec["id"], "ok": true, "sexpr": s0});
    if spec.get("roundtrip").and_then(|x| x.as_bool()) == Some(true) {
        let p1 = format!("{}", m.statement().node);
        let has_f = s0.contains("(fstring ");
        let rt = match AstModule::parse("p1.star", p1.clone(), &d) {
            Err(e) => json!({"status": "printed-text-does-not-parse", "printed": p1, "err": format!("{}", e.without_diagnostic())}),
            Ok(m1) => {
                let s1 = sexpr_of(&m1, &p1);
                let p2 = format!("{}", m1.statement().node);
                if !has_f && s1 != s0 {
                    json!({"status": "tree-changed", "printed": p1, "before": s0, "after": s1})
                } else if p2 != p1 {
                    json!({"status": "not-a-fixed-point", "printed": p1, "printed_again": p2})
                } else if has_f {
                    // third generation must be stable as a tree too
                    match AstModule::parse("p2.star", p2.clone(), &d) {
                        Ok(m2) if sexpr_of(&m2, &p2) == s1 => json!({"status": "ok"}),
                        Ok(_) => json!({"status": "tree-changed", "printed": p1, "before": s1, "after": "?"}),
                        Err(e) => json!({"status": "printed-text-does-not-parse", "printed": p2, "err": format!("{}", e.without_diagnostic())}),
                    }
                } else {
                    json!({"status": "ok"})
                }
            }
        };
        let _ = normalise_fstrings;
        out["roundtrip"] = rt;
    }
    out
}

pub fn cmd() {
    crate::install_panic_hook();
    use std::io::BufRead;
    use std::io::Write;
    let stdin = std::io::stdin();
    let stdout = std::io::stdout();
    let mut out = std::io::BufWriter::new(stdout.lock());
    for line in stdin.lock().lines() {
        let line = line.unwrap();
        if line.trim().is_empty() {
            continue;
        }
        let spec: J = serde_json::from_str(&line).unwrap();
        let r = panic::catch_unwind(panic::AssertUnwindSafe(|| one(&spec)));
        let o = match r {
            Ok(o) => o,
            Err(_) => json!({"id": spec["id"], "panic": crate::take_panic()}),
        };
        writeln!(out, "{}", o).unwrap();
    }
    out.flush().unwrap();
}
