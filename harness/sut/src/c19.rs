//! C19: drive the real language server over an in-memory connection with a scripted session.

use std::collections::HashMap;
use std::path::Path;
use std::path::PathBuf;
use std::sync::Arc;
use std::sync::RwLock;
use std::time::Duration;

use lsp_server::Connection;
use lsp_server::Message;
use lsp_server::Notification;
use lsp_server::Request;
use lsp_server::RequestId;
use serde_json::Value as J;
use serde_json::json;
use starlark::analysis::AstModuleLint;
use starlark::analysis::EvalMessage;
use starlark::docs::DocModule;
use starlark::syntax::AstModule;
use starlark::syntax::Dialect;
use starlark_lsp::error::eval_message_to_lsp_diagnostic;
use starlark_lsp::server::LspContext;
use starlark_lsp::server::LspEvalResult;
use starlark_lsp::server::LspUri;
use starlark_lsp::server::StringLiteralResult;
use starlark_lsp::server::server_with_connection;

struct Ctx {
    files: Arc<RwLock<HashMap<PathBuf, String>>>,
}

impl LspContext for Ctx {
    fn parse_file_with_contents(&self, uri: &LspUri, content: String) -> LspEvalResult {
        match uri {
            LspUri::File(path) | LspUri::Starlark(path) => {
                match AstModule::parse(&path.to_string_lossy(), content, &Dialect::AllOptionsInternal) {
                    Ok(ast) => {
                        let diagnostics = ast
                            .lint(None)
                            .into_iter()
                            .map(|l| eval_message_to_lsp_diagnostic(EvalMessage::from(l)))
                            .collect();
                        LspEvalResult { diagnostics, ast: Some(ast) }
                    }
                    Err(e) => LspEvalResult {
                        diagnostics: vec![eval_message_to_lsp_diagnostic(EvalMessage::from_error(path, &e))],
                        ast: None,
                    },
                }
            }
            _ => LspEvalResult::default(),
        }
    }

    fn resolve_load(&self, path: &str, current_file: &LspUri, _root: Option<&Path>) -> Result<LspUri, String> {
        let path = PathBuf::from(path);
        match current_file {
            LspUri::File(cur) => {
                let abs = if path.is_absolute() {
                    path
                } else {
                    cur.parent().ok_or("no parent")?.join(path)
                };
                let uri: lsp_types::Uri = format!("file://{}", abs.display()).parse().map_err(|_| "bad uri".to_owned())?;
                LspUri::try_from(uri).map_err(|e| e.to_string())
            }
            _ => Err("wrong scheme".to_owned()),
        }
    }

    fn render_as_load(&self, target: &LspUri, _current: &LspUri, _root: Option<&Path>) -> Result<String, String> {
        match target {
            LspUri::File(p) => Ok(p.file_name().map(|f| f.to_string_lossy().to_string()).unwrap_or_default()),
            _ => Err("wrong scheme".to_owned()),
        }
    }

    fn resolve_string_literal(
        &self,
        literal: &str,
        current_file: &LspUri,
        root: Option<&Path>,
    ) -> Result<Option<StringLiteralResult>, String> {
        self.resolve_load(literal, current_file, root).map(|uri| match &uri {
            LspUri::File(_) => Some(StringLiteralResult { uri, location_finder: None }),
            _ => None,
        })
    }

    fn get_load_contents(&self, uri: &LspUri) -> Result<Option<String>, String> {
        match uri {
            LspUri::File(p) => Ok(self.files.read().unwrap().get(p).cloned()),
            _ => Ok(None),
        }
    }

    fn get_environment(&self, _uri: &LspUri) -> DocModule {
        DocModule::default()
    }

    fn get_uri_for_global_symbol(&self, _cur: &LspUri, _symbol: &str) -> Result<Option<LspUri>, String> {
        Ok(None)
    }
}

struct Client {
    conn: Connection,
    next_id: i32,
    notifications: Vec<J>,
}

impl Client {
    fn request(&mut self, method: &str, params: J) -> Result<J, String> {
        self.next_id += 1;
        let id = RequestId::from(self.next_id);
        self.conn
            .sender
            .send(Message::Request(Request { id: id.clone(), method: method.to_owned(), params }))
            .map_err(|e| format!("send: {e}"))?;
        loop {
            match self.conn.receiver.recv_timeout(Duration::from_secs(10)) {
                Ok(Message::Response(r)) => {
                    if r.id == id {
                        return Ok(match r.error {
                            Some(e) => json!({"error": {"code": e.code, "message": e.message}}),
                            None => json!({"result": r.result}),
                        });
                    }
                }
                Ok(Message::Notification(n)) => self.notifications.push(json!({"method": n.method, "params": n.params})),
                Ok(Message::Request(r)) => self.notifications.push(json!({"server_request": r.method})),
                Err(_) => return Err("timeout".to_owned()),
            }
        }
    }

    fn notify(&mut self, method: &str, params: J) -> Result<(), String> {
        self.conn
            .sender
            .send(Message::Notification(Notification { method: method.to_owned(), params }))
            .map_err(|e| format!("send: {e}"))
    }

    /// Wait for a publishDiagnostics notification for `uri`.
    fn wait_diagnostics(&mut self, uri: &str, version: i64) -> Result<J, String> {
        if let Some(pos) = self.notifications.iter().position(|n| {
            n["method"] == "textDocument/publishDiagnostics" && n["params"]["uri"] == uri && n["params"]["version"] == version
        }) {
            return Ok(self.notifications.remove(pos)["params"].clone());
        }
        loop {
            match self.conn.receiver.recv_timeout(Duration::from_secs(10)) {
                Ok(Message::Notification(n)) => {
                    if n.method == "textDocument/publishDiagnostics" && n.params["uri"] == uri && n.params["version"] == version {
                        return Ok(n.params);
                    }
                    self.notifications.push(json!({"method": n.method, "params": n.params}));
                }
                Ok(_) => {}
                Err(_) => return Err("timeout".to_owned()),
            }
        }
    }
}

fn session(spec: &J) -> J {
    let files: Arc<RwLock<HashMap<PathBuf, String>>> = Arc::new(RwLock::new(HashMap::new()));
    let (server_conn, client_conn) = Connection::memory();
    let ctx = Ctx { files: files.clone() };
    let server = std::thread::Builder::new()
        .stack_size(8 << 20)
        .spawn(move || server_with_connection(server_conn, ctx).map_err(|e| format!("{e:?}")))
        .unwrap();
    let mut c = Client { conn: client_conn, next_id: 0, notifications: vec![] };
    let mut results: Vec<J> = Vec::new();
    let init = c.request(
        "initialize",
        json!({"processId": null, "rootUri": null, "capabilities": {"textDocument": {"definition": {"linkSupport": true}}}}),
    );
    if let Err(e) = init {
        return json!({"id": spec["id"], "init_error": e});
    }
    let _ = c.notify("initialized", json!({}));
    let mut version: i64 = 0;
    let mut dead = false;
    for op in spec["ops"].as_array().unwrap() {
        if dead {
            results.push(json!({"skipped": true}));
            continue;
        }
        let r: Result<J, String> = match op["op"].as_str().unwrap() {
            "open" | "change" => {
                let uri = op["uri"].as_str().unwrap();
                let text = op["text"].as_str().unwrap();
                files.write().unwrap().insert(PathBuf::from(uri.trim_start_matches("file://")), text.to_owned());
                version += 1;
                let sent = if op["op"] == "open" {
                    c.notify("textDocument/didOpen", json!({"textDocument": {"uri": uri, "languageId": "starlark", "version": version, "text": text}}))
                } else {
                    c.notify("textDocument/didChange", json!({"textDocument": {"uri": uri, "version": version}, "contentChanges": [{"text": text}]}))
                };
                sent.and_then(|_| c.wait_diagnostics(uri, version)).map(|d| json!({"diagnostics": d}))
            }
            "set_file" => {
                // a file on "disk" that is not opened (load targets)
                let uri = op["uri"].as_str().unwrap();
                files.write().unwrap().insert(PathBuf::from(uri.trim_start_matches("file://")), op["text"].as_str().unwrap().to_owned());
                Ok(json!({"ok": true}))
            }
            "close" => {
                let uri = op["uri"].as_str().unwrap();
                c.notify("textDocument/didClose", json!({"textDocument": {"uri": uri}})).map(|_| json!({"ok": true}))
            }
            "req" => c.request(op["method"].as_str().unwrap(), op["params"].clone()),
            x => Err(format!("unknown op {x}")),
        };
        match r {
            Ok(v) => results.push(v),
            Err(e) => {
                if e == "timeout" || e.starts_with("send") {
                    dead = true;
                }
                results.push(json!({"failure": e}));
            }
        }
    }
    let mut server_result = J::Null;
    if !dead {
        let _ = c.request("shutdown", J::Null);
        let _ = c.notify("exit", J::Null);
        server_result = match server.join() {
            Ok(Ok(())) => json!("ok"),
            Ok(Err(e)) => json!({"error": e}),
            Err(_) => json!({"panic": crate::take_panic()}),
        };
    } else if server.is_finished() {
        server_result = match server.join() {
            Ok(Ok(())) => json!("exited"),
            Ok(Err(e)) => json!({"error": e}),
            Err(_) => json!({"panic": crate::take_panic()}),
        };
    }
    json!({"id": spec["id"], "results": results, "server": server_result, "dead": dead, "stray": c.notifications})
}

pub fn cmd() {
    crate::install_panic_hook();
    use std::io::BufRead;
    use std::io::Write;
    let stdin = std::io::stdin();
    let stdout = std::io::stdout();
    let mut out = std::io::BufWriter::new(stdout.lock());
    for line in stdin.lock().lines() {
        let line = line.unwrap();
        if line.trim().is_empty() {
            continue;
        }
        let spec: J = serde_json::from_str(&line).unwrap();
        let o = session(&spec);
        let dead = o["dead"] == true;
        writeln!(out, "{}", o).unwrap();
        out.flush().unwrap();
        if dead {
            std::process::exit(3);
        }
    }
}
