//! Walk a parsed module: canonical S-expression + span invariants (C05, C06).

use std::fmt::Write;

use starlark_syntax::codemap::Span;
use starlark_syntax::lexer::TokenInt;
use starlark_syntax::syntax::ast::*;

pub struct Walk<'a> {
    pub src: &'a str,
    pub sexpr: String,
    pub problems: Vec<String>,
    /// (kind, begin, end) of identifier-like and literal nodes for exact-text checks
    pub literals: Vec<(String, usize, usize, String)>,
    pub with_spans: bool,
}

fn sp(s: Span) -> (usize, usize) {
    (s.begin().get() as usize, s.end().get() as usize)
}

pub fn binop(op: BinOp) -> &'static str {
    match op {
        BinOp::Or => "or",
        BinOp::And => "and",
        BinOp::Equal => "==",
        BinOp::NotEqual => "!=",
        BinOp::Less => "<",
        BinOp::Greater => ">",
        BinOp::LessOrEqual => "<=",
        BinOp::GreaterOrEqual => ">=",
        BinOp::In => "in",
        BinOp::NotIn => "notin",
        BinOp::Subtract => "-",
        BinOp::Add => "+",
        BinOp::Multiply => "*",
        BinOp::Percent => "%",
        BinOp::Divide => "/",
        BinOp::FloorDivide => "//",
        BinOp::BitAnd => "&",
        BinOp::BitOr => "|",
        BinOp::BitXor => "^",
        BinOp::LeftShift => "<<",
        BinOp::RightShift => ">>",
    }
}

fn assignop(op: AssignOp) -> &'static str {
    match op {
        AssignOp::Add => "+",
        AssignOp::Subtract => "-",
        AssignOp::Multiply => "*",
        AssignOp::Divide => "/",
        AssignOp::FloorDivide => "//",
        AssignOp::Percent => "%",
        AssignOp::BitAnd => "&",
        AssignOp::BitOr => "|",
        AssignOp::BitXor => "^",
        AssignOp::LeftShift => "<<",
        AssignOp::RightShift => ">>",
    }
}

impl<'a> Walk<'a> {
    pub fn new(src: &'a str, with_spans: bool) -> Self {
        Walk { src, sexpr: String::new(), problems: vec![], literals: vec![], with_spans }
    }

    fn check_span(&mut self, what: &str, s: Span, parent: Option<Span>) {
        let (b, e) = sp(s);
        if !(b <= e && e <= self.src.len()) {
            self.problems.push(format!("{what}: span {b}..{e} outside file of length {}", self.src.len()));
            return;
        }
        if !(self.src.is_char_boundary(b) && self.src.is_char_boundary(e)) {
            self.problems.push(format!("{what}: span {b}..{e} not on char boundaries"));
        }
        if let Some(p) = parent {
            let (pb, pe) = sp(p);
            if !(pb <= b && e <= pe) {
                self.problems.push(format!("{what}: span {b}..{e} not inside parent span {pb}..{pe}"));
            }
        }
        if self.with_spans {
            write!(self.sexpr, "@{b}:{e}").unwrap();
        }
    }

    fn text(&self, s: Span) -> Option<&'a str> {
        let (b, e) = sp(s);
        self.src.get(b..e)
    }

    fn exact_ident(&mut self, what: &str, s: Span, name: &str) {
        match self.text(s) {
            Some(t) if t == name => {}
            Some(t) => self.problems.push(format!("{what}: span text {:?} is not the identifier {:?}", t, name)),
            None => {}
        }
    }

    fn stmts(&mut self, st: &AstStmt, parent: Option<Span>) {
        // flatten nested Statements
        match &st.node {
            StmtP::Statements(v) => {
                self.check_span("statements", st.span, parent);
                for s in v {
                    self.stmts(s, Some(st.span));
                }
            }
            _ => self.stmt(st, parent),
        }
    }

    fn block(&mut self, st: &AstStmt, parent: Option<Span>) {
        self.sexpr.push_str("(block");
        self.stmts(st, parent);
        self.sexpr.push(')');
    }

    fn stmt(&mut self, st: &AstStmt, parent: Option<Span>) {
        let me = Some(st.span);
        self.sexpr.push(' ');
        match &st.node {
            StmtP::Break => {
                self.sexpr.push_str("(break");
                self.check_span("break", st.span, parent);
            }
            StmtP::Continue => {
                self.sexpr.push_str("(continue");
                self.check_span("continue", st.span, parent);
            }
            StmtP::Pass => {
                self.sexpr.push_str("(pass");
                self.check_span("pass", st.span, parent);
            }
            StmtP::Return(e) => {
                self.sexpr.push_str("(return");
                self.check_span("return", st.span, parent);
                if let Some(e) = e {
                    self.expr(e, me);
                }
            }
            StmtP::Expression(e) => {
                self.sexpr.push_str("(expr");
                self.check_span("expr-stmt", st.span, parent);
                self.expr(e, me);
            }
            StmtP::Assign(a) => {
                self.sexpr.push_str("(assign");
                self.check_span("assign", st.span, parent);
                self.target(&a.lhs, me);
                self.expr(&a.rhs, me);
                if let Some(t) = &a.ty {
                    self.sexpr.push_str(" (type");
                    self.expr(&t.expr, me);
                    self.sexpr.push(')');
                }
            }
            StmtP::AssignModify(t, op, e) => {
                write!(self.sexpr, "(augassign {}", assignop(*op)).unwrap();
                self.check_span("augassign", st.span, parent);
                self.target(t, me);
                self.expr(e, me);
            }
            StmtP::Statements(_) => {
                self.sexpr.push_str("(stmts");
                self.stmts(st, parent);
            }
            StmtP::If(c, b) => {
                self.sexpr.push_str("(if");
                self.check_span("if", st.span, parent);
                self.expr(c, me);
                self.sexpr.push(' ');
                self.block(b, me);
            }
            StmtP::IfElse(c, tb) => {
                self.sexpr.push_str("(if");
                self.check_span("ifelse", st.span, parent);
                self.expr(c, me);
                self.sexpr.push(' ');
                self.block(&tb.0, me);
                self.sexpr.push(' ');
                self.block(&tb.1, me);
            }
            StmtP::For(f) => {
                self.sexpr.push_str("(for");
                self.check_span("for", st.span, parent);
                self.target(&f.var, me);
                self.expr(&f.over, me);
                self.sexpr.push(' ');
                self.block(&f.body, me);
            }
            StmtP::Def(d) => {
                write!(self.sexpr, "(def {}", d.name.node.ident).unwrap();
                self.check_span("def", st.span, parent);
                self.check_span("def-name", d.name.span, me);
                self.exact_ident("def-name", d.name.span, &d.name.node.ident);
                self.params(&d.params, me);
                if let Some(r) = &d.return_type {
                    self.sexpr.push_str(" (ret");
                    self.expr(&r.expr, me);
                    self.sexpr.push(')');
                }
                self.sexpr.push(' ');
                self.block(&d.body, me);
            }
            StmtP::Load(l) => {
                write!(self.sexpr, "(load {:?}", l.module.node).unwrap();
                self.check_span("load", st.span, parent);
                self.check_span("load-module", l.module.span, me);
                for a in &l.args {
                    write!(self.sexpr, " ({} {:?})", a.local.node.ident, a.their.node).unwrap();
                    self.check_span("load-local", a.local.span, me);
                    self.check_span("load-their", a.their.span, me);
                }
            }
        }
        self.sexpr.push(')');
    }

    fn params(&mut self, ps: &[AstParameter], parent: Option<Span>) {
        self.sexpr.push_str(" (params");
        for p in ps {
            let me = Some(p.span);
            self.sexpr.push(' ');
            match &p.node {
                ParameterP::Slash => {
                    self.sexpr.push_str("(slash");
                    self.check_span("param-slash", p.span, parent);
                }
                ParameterP::NoArgs => {
                    self.sexpr.push_str("(barestar");
                    self.check_span("param-star", p.span, parent);
                }
                ParameterP::Normal(n, ty, d) => {
                    write!(self.sexpr, "(p {}", n.node.ident).unwrap();
                    self.check_span("param", p.span, parent);
                    self.check_span("param-name", n.span, me);
                    self.exact_ident("param-name", n.span, &n.node.ident);
                    if let Some(ty) = ty {
                        self.sexpr.push_str(" (type");
                        self.expr(&ty.expr, me);
                        self.sexpr.push(')');
                    }
                    if let Some(d) = d {
                        self.sexpr.push_str(" (default");
                        self.expr(d, me);
                        self.sexpr.push(')');
                    }
                }
                ParameterP::Args(n, ty) | ParameterP::KwArgs(n, ty) => {
                    let k = if matches!(p.node, ParameterP::Args(..)) { "star" } else { "starstar" };
                    write!(self.sexpr, "({k} {}", n.node.ident).unwrap();
                    self.check_span("param", p.span, parent);
                    self.check_span("param-name", n.span, me);
                    self.exact_ident("param-name", n.span, &n.node.ident);
                    if let Some(ty) = ty {
                        self.sexpr.push_str(" (type");
                        self.expr(&ty.expr, me);
                        self.sexpr.push(')');
                    }
                }
            }
            self.sexpr.push(')');
        }
        self.sexpr.push(')');
    }

    fn target(&mut self, t: &AstAssignTarget, parent: Option<Span>) {
        let me = Some(t.span);
        self.sexpr.push(' ');
        match &t.node {
            AssignTargetP::Tuple(v) => {
                self.sexpr.push_str("(tuple");
                self.check_span("target-tuple", t.span, parent);
                for x in v {
                    self.target(x, me);
                }
            }
            AssignTargetP::Index(ab) => {
                self.sexpr.push_str("(index");
                self.check_span("target-index", t.span, parent);
                self.expr(&ab.0, me);
                self.expr(&ab.1, me);
            }
            AssignTargetP::Dot(e, n) => {
                self.sexpr.push_str("(dot");
                self.check_span("target-dot", t.span, parent);
                self.expr(e, me);
                write!(self.sexpr, " {}", n.node).unwrap();
                self.check_span("target-dot-name", n.span, me);
                self.exact_ident("target-dot-name", n.span, &n.node);
            }
            AssignTargetP::Identifier(i) => {
                write!(self.sexpr, "(id {}", i.node.ident).unwrap();
                self.check_span("target-id", t.span, parent);
                self.exact_ident("target-id", i.span, &i.node.ident);
            }
        }
        self.sexpr.push(')');
    }

    fn opt(&mut self, e: &Option<Box<AstExpr>>, parent: Option<Span>) {
        match e {
            Some(e) => self.expr(e, parent),
            None => self.sexpr.push_str(" _"),
        }
    }

    fn clause_for(&mut self, f: &ForClause, parent: Option<Span>) {
        self.sexpr.push_str(" (for");
        self.target(&f.var, parent);
        self.expr(&f.over, parent);
        self.sexpr.push(')');
    }

    fn clauses(&mut self, cs: &[Clause], parent: Option<Span>) {
        for c in cs {
            match c {
                ClauseP::For(f) => self.clause_for(f, parent),
                ClauseP::If(e) => {
                    self.sexpr.push_str(" (if");
                    self.expr(e, parent);
                    self.sexpr.push(')');
                }
            }
        }
    }

    pub fn expr(&mut self, e: &AstExpr, parent: Option<Span>) {
        let me = Some(e.span);
        self.sexpr.push(' ');
        match &e.node {
            ExprP::Tuple(v) => {
                self.sexpr.push_str("(tuple");
                self.check_span("tuple", e.span, parent);
                for x in v {
                    self.expr(x, me);
                }
            }
            ExprP::Dot(x, n) => {
                self.sexpr.push_str("(dot");
                self.check_span("dot", e.span, parent);
                self.expr(x, me);
                write!(self.sexpr, " {}", n.node).unwrap();
                self.check_span("dot-name", n.span, me);
                self.exact_ident("dot-name", n.span, &n.node);
            }
            ExprP::Call(f, args) => {
                self.sexpr.push_str("(call");
                self.check_span("call", e.span, parent);
                self.expr(f, me);
                for a in &args.args {
                    let am = Some(a.span);
                    self.sexpr.push(' ');
                    match &a.node {
                        ArgumentP::Positional(x) => {
                            self.sexpr.push_str("(pos");
                            self.check_span("arg", a.span, me);
                            self.expr(x, am);
                        }
                        ArgumentP::Named(n, x) => {
                            write!(self.sexpr, "(named {}", n.node).unwrap();
                            self.check_span("arg", a.span, me);
                            self.check_span("arg-name", n.span, am);
                            self.exact_ident("arg-name", n.span, &n.node);
                            self.expr(x, am);
                        }
                        ArgumentP::Args(x) => {
                            self.sexpr.push_str("(star");
                            self.check_span("arg", a.span, me);
                            self.expr(x, am);
                        }
                        ArgumentP::KwArgs(x) => {
                            self.sexpr.push_str("(starstar");
                            self.check_span("arg", a.span, me);
                            self.expr(x, am);
                        }
                    }
                    self.sexpr.push(')');
                }
            }
            ExprP::Index(ab) => {
                self.sexpr.push_str("(index");
                self.check_span("index", e.span, parent);
                self.expr(&ab.0, me);
                self.expr(&ab.1, me);
            }
            ExprP::Index2(abc) => {
                self.sexpr.push_str("(index2");
                self.check_span("index2", e.span, parent);
                self.expr(&abc.0, me);
                self.expr(&abc.1, me);
                self.expr(&abc.2, me);
            }
            ExprP::Slice(x, a, b, c) => {
                self.sexpr.push_str("(slice");
                self.check_span("slice", e.span, parent);
                self.expr(x, me);
                self.opt(a, me);
                self.opt(b, me);
                self.opt(c, me);
            }
            ExprP::Identifier(i) => {
                write!(self.sexpr, "(id {}", i.node.ident).unwrap();
                self.check_span("id", e.span, parent);
                self.exact_ident("id", i.span, &i.node.ident);
            }
            ExprP::Lambda(l) => {
                self.sexpr.push_str("(lambda");
                self.check_span("lambda", e.span, parent);
                self.params(&l.params, me);
                self.expr(&l.body, me);
            }
            ExprP::Literal(l) => match l {
                AstLiteral::Int(i) => {
                    match &i.node {
                        TokenInt::I32(x) => write!(self.sexpr, "(int {x}").unwrap(),
                        TokenInt::BigInt(x) => write!(self.sexpr, "(int {x}").unwrap(),
                    }
                    self.check_span("int", e.span, parent);
                    let (b, en) = sp(e.span);
                    self.literals.push(("int".into(), b, en, self.sexpr.rsplit('(').next().unwrap().to_owned()));
                }
                AstLiteral::Float(f) => {
                    write!(self.sexpr, "(float {:?}", f.node).unwrap();
                    self.check_span("float", e.span, parent);
                    let (b, en) = sp(e.span);
                    self.literals.push(("float".into(), b, en, self.sexpr.rsplit('(').next().unwrap().to_owned()));
                }
                AstLiteral::String(s) => {
                    write!(self.sexpr, "(str {:?}", s.node).unwrap();
                    self.check_span("str", e.span, parent);
                    let (b, en) = sp(e.span);
                    self.literals.push(("str".into(), b, en, format!("str {:?}", s.node)));
                }
                AstLiteral::Bytes(s) => {
                    write!(self.sexpr, "(bytes {:?}", s.node).unwrap();
                    self.check_span("bytes", e.span, parent);
                    let (b, en) = sp(e.span);
                    self.literals.push(("bytes".into(), b, en, format!("bytes {:?}", s.node)));
                }
                AstLiteral::Ellipsis => {
                    self.sexpr.push_str("(ellipsis");
                    self.check_span("ellipsis", e.span, parent);
                }
            },
            ExprP::Not(x) => {
                self.sexpr.push_str("(not");
                self.check_span("not", e.span, parent);
                self.expr(x, me);
            }
            ExprP::Minus(x) => {
                self.sexpr.push_str("(neg");
                self.check_span("neg", e.span, parent);
                self.expr(x, me);
            }
            ExprP::Plus(x) => {
                self.sexpr.push_str("(uplus");
                self.check_span("uplus", e.span, parent);
                self.expr(x, me);
            }
            ExprP::BitNot(x) => {
                self.sexpr.push_str("(inv");
                self.check_span("inv", e.span, parent);
                self.expr(x, me);
            }
            ExprP::Op(l, op, r) => {
                write!(self.sexpr, "(op {}", binop(*op)).unwrap();
                self.check_span("op", e.span, parent);
                self.expr(l, me);
                self.expr(r, me);
            }
            ExprP::If(cab) => {
                self.sexpr.push_str("(ifexp");
                self.check_span("ifexp", e.span, parent);
                self.expr(&cab.0, me);
                self.expr(&cab.1, me);
                self.expr(&cab.2, me);
            }
            ExprP::List(v) => {
                self.sexpr.push_str("(list");
                self.check_span("list", e.span, parent);
                for x in v {
                    self.expr(x, me);
                }
            }
            ExprP::Dict(v) => {
                self.sexpr.push_str("(dict");
                self.check_span("dict", e.span, parent);
                for (k, x) in v {
                    self.sexpr.push_str(" (kv");
                    self.expr(k, me);
                    self.expr(x, me);
                    self.sexpr.push(')');
                }
            }
            ExprP::ListComprehension(x, f, cs) => {
                self.sexpr.push_str("(listcomp");
                self.check_span("listcomp", e.span, parent);
                self.expr(x, me);
                self.clause_for(f, me);
                self.clauses(cs, me);
            }
            ExprP::DictComprehension(kv, f, cs) => {
                self.sexpr.push_str("(dictcomp");
                self.check_span("dictcomp", e.span, parent);
                self.expr(&kv.0, me);
                self.expr(&kv.1, me);
                self.clause_for(f, me);
                self.clauses(cs, me);
            }
            ExprP::FString(fs) => {
                write!(self.sexpr, "(fstring {:?}", fs.node.format.node).unwrap();
                self.check_span("fstring", e.span, parent);
                for x in &fs.node.expressions {
                    self.expr(x, me);
                }
            }
        }
        self.sexpr.push(')');
    }

    pub fn module(&mut self, st: &AstStmt) {
        self.sexpr.push_str("(module");
        self.stmts(st, None);
        self.sexpr.push(')');
    }
}
