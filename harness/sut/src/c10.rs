//! C10: integer operations through the Rust API.

use std::panic;
use std::str::FromStr;

use num_bigint::BigInt;
use num_traits::ToPrimitive;
use serde_json::Value as J;
use serde_json::json;
use starlark::values::Heap;
use starlark::values::UnpackValue;
use starlark::values::Value;

fn opt<T: ToString, E>(r: Result<Option<T>, E>) -> J {
    match r {
        Ok(Some(x)) => J::String(x.to_string()),
        _ => J::Null,
    }
}

fn res<'v>(r: starlark::Result<Value<'v>>) -> J {
    match r {
        Ok(v) => J::String(v.to_str()),
        Err(_) => J::Null,
    }
}

fn one(spec: &J) -> J {
    let a = BigInt::from_str(spec["a"].as_str().unwrap()).unwrap();
    let b = BigInt::from_str(spec["b"].as_str().unwrap()).unwrap();
    Heap::temp(|heap| {
        let va = heap.alloc(a.clone());
        let vb = heap.alloc(b.clone());
        let mut o = serde_json::Map::new();
        o.insert("id".into(), spec["id"].clone());
        o.insert("str".into(), J::String(va.to_str()));
        o.insert("roundtrip".into(), opt(BigInt::unpack_value(va)));
        o.insert("unpack_i32".into(), opt(i32::unpack_value(va)));
        o.insert("unpack_i64".into(), opt(i64::unpack_value(va)));
        o.insert("unpack_u32".into(), opt(u32::unpack_value(va)));
        o.insert("unpack_u64".into(), opt(u64::unpack_value(va)));
        o.insert("unpack_usize".into(), opt(usize::unpack_value(va)));
        o.insert("unpack_isize".into(), opt(isize::unpack_value(va)));
        if let Some(x) = a.to_i32() {
            o.insert("alloc_i32".into(), J::String(heap.alloc(x).to_str()));
        }
        if let Some(x) = a.to_i64() {
            o.insert("alloc_i64".into(), J::String(heap.alloc(x).to_str()));
            o.insert("alloc_isize".into(), J::String(heap.alloc(x as isize).to_str()));
        }
        if let Some(x) = a.to_u32() {
            o.insert("alloc_u32".into(), J::String(heap.alloc(x).to_str()));
        }
        if let Some(x) = a.to_u64() {
            o.insert("alloc_u64".into(), J::String(heap.alloc(x).to_str()));
            o.insert("alloc_usize".into(), J::String(heap.alloc(x as usize).to_str()));
        }
        o.insert("add".into(), res(va.add(vb, heap)));
        o.insert("sub".into(), res(va.sub(vb, heap)));
        o.insert("mul".into(), res(va.mul(vb, heap)));
        o.insert("floor_div".into(), res(va.floor_div(vb, heap)));
        o.insert("percent".into(), res(va.percent(vb, heap)));
        o.insert("bit_and".into(), res(va.bit_and(vb, heap)));
        o.insert("bit_or".into(), res(va.bit_or(vb, heap)));
        o.insert("bit_xor".into(), res(va.bit_xor(vb, heap)));
        o.insert("minus".into(), res(va.minus(heap)));
        o.insert("bit_not".into(), res(va.bit_not(heap)));
        o.insert("equals".into(), json!(va.equals(vb).unwrap_or(false)));
        o.insert(
            "compare".into(),
            json!(va.compare(vb).map(|c| c as i32).unwrap_or(99)),
        );
        // the same number allocated twice (and through i64 when it fits) hashes equally
        let va2 = heap.alloc(a.clone());
        let mut h_ok = va.get_hashed().unwrap().hash() == va2.get_hashed().unwrap().hash()
            && va.equals(va2).unwrap_or(false);
        if let Some(x) = a.to_i64() {
            let v3 = heap.alloc(x);
            h_ok &= v3.get_hashed().unwrap().hash() == va.get_hashed().unwrap().hash()
                && v3.equals(va).unwrap_or(false);
        }
        o.insert("hash_eq_self".into(), json!(h_ok));
        J::Object(o)
    })
}

pub fn cmd() {
    crate::install_panic_hook();
    use std::io::BufRead;
    use std::io::Write;
    let stdin = std::io::stdin();
    let stdout = std::io::stdout();
    let mut out = std::io::BufWriter::new(stdout.lock());
    for line in stdin.lock().lines() {
        let line = line.unwrap();
        if line.trim().is_empty() {
            continue;
        }
        let spec: J = serde_json::from_str(&line).unwrap();
        let r = panic::catch_unwind(panic::AssertUnwindSafe(|| one(&spec)));
        let o = match r {
            Ok(o) => o,
            Err(_) => json!({"id": spec["id"], "panic": crate::take_panic()}),
        };
        writeln!(out, "{}", o).unwrap();
        out.flush().unwrap();
    }
}
