//! Canonical, identity-independent encoding of Starlark values.
//!
//! Shared (by construction) with `py/prelude.py`: two encodings are equal iff the
//! values are equal as graphs up to renaming of mutable-container identities.
//! Never goes through `repr`/`str` for the shared core types.

use std::collections::HashMap;
use std::fmt::Write;

use starlark::values::Value;
use starlark::values::ValueIdentity;
use starlark::values::dict::DictRef;
use starlark::values::list::ListRef;
use starlark::values::structs::StructRef;
use starlark::values::tuple::TupleRef;

pub fn esc_str(s: &str, out: &mut String) {
    out.push('"');
    for c in s.chars() {
        let u = c as u32;
        if (0x20..0x7f).contains(&u) && c != '"' && c != '\\' {
            out.push(c);
        } else {
            write!(out, "\\u{{{:x}}}", u).unwrap();
        }
    }
    out.push('"');
}

pub struct Enc<'v> {
    ids: HashMap<ValueIdentity<'v>, usize>,
    depth: usize,
}

impl<'v> Enc<'v> {
    pub fn new() -> Self {
        Enc {
            ids: HashMap::new(),
            depth: 0,
        }
    }

    /// Returns true if already seen (and writes a back reference).
    fn backref(&mut self, v: Value<'v>, out: &mut String) -> bool {
        let n = self.ids.len();
        match self.ids.get(&v.identity()) {
            Some(i) => {
                write!(out, "@{}", i).unwrap();
                true
            }
            None => {
                self.ids.insert(v.identity(), n);
                write!(out, "#{}", n).unwrap();
                false
            }
        }
    }

    pub fn enc(&mut self, v: Value<'v>, out: &mut String) {
        self.depth += 1;
        if self.depth > 200 {
            out.push_str("<deep>");
            self.depth -= 1;
            return;
        }
        self.enc1(v, out);
        self.depth -= 1;
    }

    fn enc1(&mut self, v: Value<'v>, out: &mut String) {
        if v.is_none() {
            out.push('N');
            return;
        }
        if let Some(b) = v.unpack_bool() {
            out.push(if b { 'T' } else { 'F' });
            return;
        }
        match v.get_type() {
            "int" => {
                out.push('i');
                out.push_str(&v.to_str());
            }
            "float" => {
                out.push('f');
                out.push_str(&v.to_str());
            }
            "string" => {
                out.push('s');
                esc_str(v.unpack_str().unwrap(), out);
            }
            "list" => {
                out.push('L');
                if self.backref(v, out) {
                    return;
                }
                let l = ListRef::from_value(v).unwrap();
                out.push('[');
                for (i, x) in l.content().to_vec().into_iter().enumerate() {
                    if i > 0 {
                        out.push(',');
                    }
                    self.enc(x, out);
                }
                out.push(']');
            }
            "tuple" => {
                let t = TupleRef::from_value(v).unwrap();
                out.push('(');
                for (i, x) in t.content().iter().enumerate() {
                    if i > 0 {
                        out.push(',');
                    }
                    self.enc(*x, out);
                }
                out.push(')');
            }
            "dict" => {
                out.push('D');
                if self.backref(v, out) {
                    return;
                }
                let items: Vec<(Value<'v>, Value<'v>)> = match DictRef::from_value(v) {
                    Some(d) => d.iter().collect(),
                    None => {
                        out.push_str("<?>");
                        return;
                    }
                };
                out.push('{');
                for (i, (k, x)) in items.into_iter().enumerate() {
                    if i > 0 {
                        out.push(',');
                    }
                    self.enc(k, out);
                    out.push(':');
                    self.enc(x, out);
                }
                out.push('}');
            }
            "set" => {
            // set elements are hashable, hence immutable: repr is a function of content
                out.push('S');
                esc_str(&v.to_repr(), out);
            }
            "struct" => {
                out.push_str("struct(");
                if let Some(s) = StructRef::from_value(v) {
                    let items: Vec<_> = s.iter().collect();
                    for (i, (k, x)) in items.into_iter().enumerate() {
                        if i > 0 {
                            out.push(',');
                        }
                        out.push_str(k.as_str());
                        out.push('=');
                        self.enc(x, out);
                    }
                }
                out.push(')');
            }
            "range" => {
                out.push('R');
                out.push_str(&v.to_repr());
            }
            ty => {
                // Everything else: type name + repr (records, enums, functions, types ...)
                out.push('X');
                out.push_str(ty);
                out.push(':');
                let r = v.to_repr();
                esc_str(&r, out);
            }
        }
    }
}

pub fn encode<'v>(v: Value<'v>) -> String {
    let mut s = String::new();
    Enc::new().enc(v, &mut s);
    s
}
