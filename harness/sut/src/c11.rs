//! C11: explicit-state BFS over the real `starlark_map` containers, in lock-step with
//! a `Vec`-of-pairs reference model. Every state: all queries compared + index invariant.

use std::collections::HashSet;
use std::hash::Hash;
use std::hash::Hasher;
use std::panic;

use serde_json::Value as J;
use serde_json::json;
use starlark_map::Hashed;
use starlark_map::StarlarkHashValue;
use starlark_map::ordered_map::OrderedMap;
use starlark_map::ordered_set::OrderedSet;
use starlark_map::small_map::Entry;
use starlark_map::small_map::SmallMap;
use starlark_map::small_set::SmallSet;
use starlark_map::sorted_map::SortedMap;
use starlark_map::sorted_set::SortedSet;
use starlark_map::unordered_map::UnorderedMap;
use starlark_map::unordered_set::UnorderedSet;
use starlark_map::vec2::Vec2;

// align(4): a (Key, u8) entry is 8 bytes, so hashbrown starts its tables at the smallest size (4 buckets, capacity 3) instead
// of the 8 buckets it gives to 2-byte entries - with few keys the growth points (4th, 8th insertion) would never be reached
#[derive(Clone, Copy, PartialEq, Eq, PartialOrd, Ord, Debug)]
#[repr(align(4))]
pub struct Key(pub u8);

/// The "natural" hash of a key feeds a well-spread 64-bit word to the hasher (splitmix64 of the index): hashing the bare
/// one-byte index makes the 32-bit hash, its promoted form and the raw 64-bit hasher output agree in the bits a hash table
/// looks at, which hid a seeded confusion between them.
impl std::hash::Hash for Key {
    fn hash<H: std::hash::Hasher>(&self, state: &mut H) {
        let mut z = (self.0 as u64).wrapping_add(1).wrapping_mul(0x9E37_79B9_7F4A_7C15);
        z = (z ^ (z >> 30)).wrapping_mul(0xBF58_476D_1CE4_E5B9);
        z = (z ^ (z >> 27)).wrapping_mul(0x94D0_49BB_1331_11EB);
        state.write_u64(z ^ (z >> 31));
    }
}

pub trait Sys: Clone {
    fn canon(&self) -> Vec<u8>;
    fn nops(&self) -> usize;
    fn op_name(&self, i: usize) -> String;
    /// Ok(false): op not applicable in this state (skipped).
    fn apply(&mut self, i: usize) -> Result<bool, String>;
    fn check(&self) -> Result<(), String>;
}

macro_rules! ensure {
    ($c:expr, $($a:tt)*) => { if !($c) { return Err(format!($($a)*)); } };
}

// ---------------------------------------------------------------------------
// Hash patterns

#[derive(Clone, Copy, Debug, PartialEq, Eq)]
pub enum Pat {
    Natural,
    Distinct,
    AllEqual,
    Pairs,
    LowBits,
    HighBits,
}

impl Pat {
    fn all() -> Vec<Pat> {
        vec![Pat::Natural, Pat::Distinct, Pat::AllEqual, Pat::Pairs, Pat::LowBits, Pat::HighBits]
    }
    fn hash(self, k: Key) -> u32 {
        let i = k.0 as u32;
        match self {
            Pat::Natural => Hashed::new(k).hash().get(),
            Pat::Distinct => 1000 + i,
            Pat::AllEqual => 7,
            // active keys 0..3 pair up; fillers (>=4) collide with key (i%4)
            Pat::Pairs => 5 + (i % 4) / 2 * 4,
            Pat::LowBits => ((i + 1) << 16) | 0x7,
            Pat::HighBits => 0xAB00_0000 | (i % 3),
        }
    }
}

fn hk(p: Pat, k: Key) -> Hashed<Key> {
    Hashed::new_unchecked(StarlarkHashValue::new_unchecked(p.hash(k)), k)
}

// ---------------------------------------------------------------------------
// SmallMap

#[derive(Clone)]
pub struct MapSys {
    pat: Pat,
    real: SmallMap<Key, u8>,
    model: Vec<(Key, u32, u8)>,
    universe: Vec<Key>,
    active: Vec<Key>,
}

const MAP_GLOBAL_OPS: &[&str] = &[
    "pop", "rm_idx_0", "rm_idx_mid", "rm_idx_last", "rm_idx_oob", "retain_all", "retain_none",
    "retain_not_k0", "retain_even_pos", "retain_val0", "sort_keys", "reverse", "clear", "reserve0",
    "reserve1", "reserve20", "maybe_drop_index", "extend_k0_k3", "clone", "rebuild_from_iter",
    "values_mut_zero", "iter_mut_flip", "into_iter_hashed_rebuild",
];
const MAP_KEY_OPS: &[&str] = &[
    "insert0", "insert1", "insert_unique0", "entry_or_insert1", "entry_match_set0", "entry_and_modify_or1",
    "get_mut_set1", "shift_remove", "shift_remove_entry", "insert_nat0", "shift_remove_nat", "entry_nat1",
];

impl MapSys {
    fn new(pat: Pat, start: &str) -> MapSys {
        let active: Vec<Key> = (0..4).map(Key).collect();
        let mut s = MapSys {
            pat,
            real: SmallMap::new(),
            model: Vec::new(),
            universe: (0..24).map(Key).collect(),
            active,
        };
        // fillers are keys 4..
        let fill = |s: &mut MapSys, n: usize| {
            for i in 0..n {
                let k = Key(4 + i as u8);
                let h = hk(pat, k);
                s.real.insert_hashed(h, 2);
                s.model.push((k, h.hash().get(), 2));
            }
        };
        match start {
            "empty" => {}
            s0 if s0.starts_with("fill") => {
                let n: usize = s0[4..].parse().unwrap();
                fill(&mut s, n);
            }
            s0 if s0.starts_with("cap20_") => {
                let n: usize = s0[6..].parse().unwrap();
                s.real = SmallMap::with_capacity(20);
                fill(&mut s, n);
            }
            s0 if s0.starts_with("shrunk") => {
                // grown to 20 then shrunk back to n by pops (index kept)
                let n: usize = s0[6..].parse().unwrap();
                fill(&mut s, 20);
                while s.model.len() > n {
                    s.real.pop();
                    s.model.pop();
                }
            }
            _ => panic!("bad start {start}"),
        }
        s
    }

    fn mfind(&self, k: Key) -> Option<usize> {
        self.model.iter().position(|e| e.0 == k)
    }
}

impl Sys for MapSys {
    fn canon(&self) -> Vec<u8> {
        let mut v = Vec::with_capacity(self.model.len() * 3 + 8);
        for (k, h) in self.real.iter_hashed() {
            v.push(k.key().0);
            v.extend_from_slice(&k.hash().get().to_le_bytes());
            v.push(*h);
        }
        v.push(0xff);
        v.extend_from_slice(&(self.real.capacity() as u32).to_le_bytes());
        v.push(self.real.verif_index().is_some() as u8);
        v
    }

    fn nops(&self) -> usize {
        MAP_GLOBAL_OPS.len() + MAP_KEY_OPS.len() * self.active.len()
    }

    fn op_name(&self, i: usize) -> String {
        if i < MAP_GLOBAL_OPS.len() {
            MAP_GLOBAL_OPS[i].to_owned()
        } else {
            let j = i - MAP_GLOBAL_OPS.len();
            format!("{}(k{})", MAP_KEY_OPS[j / self.active.len()], j % self.active.len())
        }
    }

    fn apply(&mut self, i: usize) -> Result<bool, String> {
        let pat = self.pat;
        if i < MAP_GLOBAL_OPS.len() {
            let len = self.model.len();
            match MAP_GLOBAL_OPS[i] {
                "pop" => {
                    let r = self.real.pop();
                    let m = self.model.pop().map(|e| (e.0, e.2));
                    ensure!(r == m, "pop returned {:?}, model {:?}", r, m);
                }
                n @ ("rm_idx_0" | "rm_idx_mid" | "rm_idx_last" | "rm_idx_oob") => {
                    let idx = match n {
                        "rm_idx_0" => 0,
                        "rm_idx_mid" => len / 2,
                        "rm_idx_last" => len.wrapping_sub(1),
                        _ => len,
                    };
                    let r = self.real.shift_remove_index(idx);
                    let m = if idx < len {
                        let e = self.model.remove(idx);
                        Some((e.0, e.2))
                    } else {
                        None
                    };
                    ensure!(r == m, "shift_remove_index({idx}) returned {:?}, model {:?}", r, m);
                }
                "retain_all" => self.real.retain(|_, _| true),
                "retain_none" => {
                    self.real.retain(|_, _| false);
                    self.model.clear();
                }
                "retain_not_k0" => {
                    self.real.retain(|k, _| *k != Key(0));
                    self.model.retain(|e| e.0 != Key(0));
                }
                "retain_even_pos" => {
                    let mut c = 0;
                    self.real.retain(|_, _| {
                        c += 1;
                        c % 2 == 1
                    });
                    let mut c = 0;
                    self.model.retain(|_| {
                        c += 1;
                        c % 2 == 1
                    });
                }
                "retain_val0" => {
                    self.real.retain(|_, v| *v == 0);
                    self.model.retain(|e| e.2 == 0);
                }
                "sort_keys" => {
                    self.real.sort_keys();
                    self.model.sort_by_key(|e| e.0); // stable, keys unique
                }
                "reverse" => {
                    self.real.reverse();
                    self.model.reverse();
                }
                "clear" => {
                    self.real.clear();
                    self.model.clear();
                }
                "reserve0" => self.real.reserve(0),
                "reserve1" => self.real.reserve(1),
                "reserve20" => self.real.reserve(20),
                "maybe_drop_index" => self.real.maybe_drop_index(),
                "extend_k0_k3" => {
                    if pat != Pat::Natural {
                        return Ok(false); // Extend hashes keys itself
                    }
                    self.real.extend(vec![(Key(0), 1), (Key(3), 0)]);
                    for (k, v) in [(Key(0), 1u8), (Key(3), 0u8)] {
                        match self.mfind(k) {
                            Some(p) => self.model[p].2 = v,
                            None => self.model.push((k, pat.hash(k), v)),
                        }
                    }
                }
                "clone" => {
                    let c = self.real.clone();
                    self.real = c;
                }
                "rebuild_from_iter" => {
                    if pat != Pat::Natural {
                        return Ok(false);
                    }
                    let c: SmallMap<Key, u8> = self.real.iter().map(|(k, v)| (*k, *v)).collect();
                    self.real = c;
                }
                "values_mut_zero" => {
                    for v in self.real.values_mut() {
                        *v = 0;
                    }
                    for e in &mut self.model {
                        e.2 = 0;
                    }
                }
                "iter_mut_flip" => {
                    for (_, v) in self.real.iter_mut() {
                        *v ^= 1;
                    }
                    for e in &mut self.model {
                        e.2 ^= 1;
                    }
                }
                "into_iter_hashed_rebuild" => {
                    let old = std::mem::take(&mut self.real);
                    let mut n = SmallMap::new();
                    for (k, v) in old.into_iter_hashed() {
                        n.insert_hashed_unique_unchecked(k, v);
                    }
                    self.real = n;
                }
                x => return Err(format!("unknown op {x}")),
            }
            return Ok(true);
        }
        let j = i - MAP_GLOBAL_OPS.len();
        let k = self.active[j % self.active.len()];
        let name = MAP_KEY_OPS[j / self.active.len()];
        let h = hk(pat, k);
        let pos = self.mfind(k);
        match name {
            n @ ("insert0" | "insert1") => {
                let v = if n == "insert0" { 0 } else { 1 };
                let r = self.real.insert_hashed(h, v);
                let m = match pos {
                    Some(p) => Some(std::mem::replace(&mut self.model[p].2, v)),
                    None => {
                        self.model.push((k, h.hash().get(), v));
                        None
                    }
                };
                ensure!(r == m, "insert returned {:?}, model {:?}", r, m);
            }
            "insert_unique0" => {
                if pos.is_some() {
                    return Ok(false);
                }
                let (rk, rv) = self.real.insert_hashed_unique_unchecked(h, 0);
                ensure!(*rk == k && *rv == 0, "insert_unique returned wrong refs");
                self.model.push((k, h.hash().get(), 0));
            }
            "entry_or_insert1" => {
                let r = *self.real.entry_hashed(h).or_insert(1);
                let m = match pos {
                    Some(p) => self.model[p].2,
                    None => {
                        self.model.push((k, h.hash().get(), 1));
                        1
                    }
                };
                ensure!(r == m, "entry.or_insert returned {r}, model {m}");
            }
            "entry_match_set0" => match self.real.entry_hashed(h) {
                Entry::Occupied(mut o) => {
                    ensure!(pos.is_some(), "entry Occupied but model absent");
                    ensure!(*o.key() == k, "occupied key");
                    ensure!(*o.get() == self.model[pos.unwrap()].2, "occupied value");
                    *o.get_mut() = 0;
                    self.model[pos.unwrap()].2 = 0;
                }
                Entry::Vacant(v) => {
                    ensure!(pos.is_none(), "entry Vacant but model present");
                    ensure!(*v.key() == k, "vacant key");
                    v.insert(0);
                    self.model.push((k, h.hash().get(), 0));
                }
            },
            "entry_and_modify_or1" => {
                self.real.entry_hashed(h).and_modify(|v| *v ^= 1).or_insert(1);
                match pos {
                    Some(p) => self.model[p].2 ^= 1,
                    None => self.model.push((k, h.hash().get(), 1)),
                }
            }
            "get_mut_set1" => {
                let r = self.real.get_mut_hashed(h.as_ref());
                match (r, pos) {
                    (Some(v), Some(p)) => {
                        *v = 1;
                        self.model[p].2 = 1;
                    }
                    (None, None) => {}
                    (r, p) => return Err(format!("get_mut {:?} vs model pos {:?}", r.is_some(), p)),
                }
            }
            "shift_remove" => {
                let r = self.real.shift_remove_hashed(h.as_ref());
                let m = pos.map(|p| self.model.remove(p).2);
                ensure!(r == m, "shift_remove returned {:?}, model {:?}", r, m);
            }
            "shift_remove_entry" => {
                let r = self.real.shift_remove_hashed_entry(h.as_ref());
                let m = pos.map(|p| {
                    let e = self.model.remove(p);
                    (e.0, e.2)
                });
                ensure!(r == m, "shift_remove_entry returned {:?}, model {:?}", r, m);
            }
            "insert_nat0" => {
                if pat != Pat::Natural {
                    return Ok(false);
                }
                let r = self.real.insert(k, 0);
                let m = match pos {
                    Some(p) => Some(std::mem::replace(&mut self.model[p].2, 0)),
                    None => {
                        self.model.push((k, h.hash().get(), 0));
                        None
                    }
                };
                ensure!(r == m, "insert(nat) returned {:?}, model {:?}", r, m);
            }
            "shift_remove_nat" => {
                if pat != Pat::Natural {
                    return Ok(false);
                }
                let r = self.real.shift_remove_entry(&k);
                let m = pos.map(|p| {
                    let e = self.model.remove(p);
                    (e.0, e.2)
                });
                ensure!(r == m, "shift_remove_entry(nat) returned {:?}, model {:?}", r, m);
            }
            "entry_nat1" => {
                if pat != Pat::Natural {
                    return Ok(false);
                }
                let r = *self.real.entry(k).or_insert(1);
                let m = match pos {
                    Some(p) => self.model[p].2,
                    None => {
                        self.model.push((k, h.hash().get(), 1));
                        1
                    }
                };
                ensure!(r == m, "entry(nat).or_insert returned {r}, model {m}");
            }
            x => return Err(format!("unknown op {x}")),
        }
        Ok(true)
    }

    fn check(&self) -> Result<(), String> {
        let m = &self.model;
        let r = &self.real;
        ensure!(r.len() == m.len(), "len {} vs model {}", r.len(), m.len());
        ensure!(r.is_empty() == m.is_empty(), "is_empty");
        let it: Vec<(Key, u8)> = r.iter().map(|(k, v)| (*k, *v)).collect();
        let mi: Vec<(Key, u8)> = m.iter().map(|e| (e.0, e.2)).collect();
        ensure!(it == mi, "iter {:?} vs model {:?}", it, mi);
        let ih: Vec<(Key, u32, u8)> =
            r.iter_hashed().map(|(k, v)| (**k.key(), k.hash().get(), *v)).collect();
        ensure!(&ih == m, "iter_hashed {:?} vs model {:?}", ih, m);
        ensure!(r.keys().copied().collect::<Vec<_>>() == m.iter().map(|e| e.0).collect::<Vec<_>>(), "keys");
        ensure!(r.values().copied().collect::<Vec<_>>() == m.iter().map(|e| e.2).collect::<Vec<_>>(), "values");
        ensure!(r.keys().len() == m.len() && r.iter().len() == m.len(), "ExactSize len");
        let rev: Vec<(Key, u8)> = r.iter().rev().map(|(k, v)| (*k, *v)).collect();
        let mut mrev = mi.clone();
        mrev.reverse();
        ensure!(rev == mrev, "iter().rev()");
        ensure!(r.first().map(|(k, v)| (*k, *v)) == mi.first().copied(), "first");
        ensure!(r.last().map(|(k, v)| (*k, *v)) == mi.last().copied(), "last");
        for i in 0..=m.len() {
            ensure!(r.get_index(i).map(|(k, v)| (*k, *v)) == mi.get(i).copied(), "get_index({i})");
        }
        for &k in &self.universe {
            let h = hk(self.pat, k);
            let pos = m.iter().position(|e| e.0 == k);
            let val = pos.map(|p| m[p].2);
            ensure!(r.get_hashed(h.as_ref()).copied() == val, "get_hashed({:?}) = {:?} model {:?}", k, r.get_hashed(h.as_ref()), val);
            ensure!(r.get_hashed_by_value(h).copied() == val, "get_hashed_by_value({:?})", k);
            ensure!(r.contains_key_hashed(h.as_ref()) == pos.is_some(), "contains_key_hashed({:?})", k);
            ensure!(r.contains_key_hashed_by_value(h) == pos.is_some(), "contains_key_hashed_by_value({:?})", k);
            ensure!(r.get_index_of_hashed(h.as_ref()) == pos, "get_index_of_hashed({:?}) = {:?} model {:?}", k, r.get_index_of_hashed(h.as_ref()), pos);
            ensure!(r.get_index_of_hashed_by_value(h) == pos, "get_index_of_hashed_by_value({:?})", k);
            let gf = r.get_full_hashed(h.as_ref()).map(|(i, k, v)| (i, *k, *v));
            ensure!(gf == pos.map(|p| (p, k, m[p].2)), "get_full_hashed({:?}) = {:?}", k, gf);
            if self.pat == Pat::Natural {
                ensure!(r.get(&k).copied() == val, "get({:?})", k);
                ensure!(r.contains_key(&k) == pos.is_some(), "contains_key({:?})", k);
                ensure!(r.get_index_of(&k) == pos, "get_index_of({:?})", k);
                ensure!(r.get_full(&k).map(|(i, k, v)| (i, *k, *v)) == pos.map(|p| (p, k, m[p].2)), "get_full({:?})", k);
            }
        }
        // clone / eq / into_iter / hash_ordered differential against a map built from the model
        let c = r.clone();
        ensure!(c.eq_ordered(r) && r.eq_ordered(&c), "clone not eq_ordered");
        ensure!(c == *r, "clone != original");
        let mut fresh: SmallMap<Key, u8> = SmallMap::new();
        for e in m {
            fresh.insert_hashed_unique_unchecked(
                Hashed::new_unchecked(StarlarkHashValue::new_unchecked(e.1), e.0),
                e.2,
            );
        }
        ensure!(fresh.eq_ordered(r), "eq_ordered vs map rebuilt from model");
        ensure!(fresh == *r, "== vs map rebuilt from model");
        let mut h1 = std::collections::hash_map::DefaultHasher::new();
        let mut h2 = std::collections::hash_map::DefaultHasher::new();
        r.hash_ordered(&mut h1);
        fresh.hash_ordered(&mut h2);
        ensure!(h1.finish() == h2.finish(), "hash_ordered differs from rebuilt map");
        let ii: Vec<(Key, u8)> = c.into_iter().collect();
        ensure!(ii == mi, "into_iter");
        // index invariant (H4)
        match r.verif_index() {
            None => ensure!(m.len() <= 16, "no index with {} entries", m.len()),
            Some(mut ix) => {
                ensure!(ix.len() == m.len(), "index has {} slots for {} entries", ix.len(), m.len());
                ix.sort();
                ensure!(ix.iter().copied().eq(0..m.len()), "index slots are not a permutation: {:?}", ix);
                for (i, e) in m.iter().enumerate() {
                    ensure!(
                        r.verif_index_finds(StarlarkHashValue::new_unchecked(e.1), i) == Some(true),
                        "index lookup of entry {i} (hash {}) fails", e.1
                    );
                }
            }
        }
        Ok(())
    }
}

// ---------------------------------------------------------------------------
// SmallSet (+ OrderedSet view of the same operations)

#[derive(Clone)]
pub struct SetSys {
    pat: Pat,
    real: SmallSet<Key>,
    model: Vec<(Key, u32)>,
    other: SmallSet<Key>,
    other_model: Vec<Key>,
}

const SET_GLOBAL_OPS: &[&str] = &[
    "pop", "rm_idx_0", "rm_idx_last", "rm_idx_oob", "retain_not_k0", "retain_even_pos", "sort", "reverse",
    "clear", "reserve20", "clone", "extend", "rebuild_hashed",
];
const SET_KEY_OPS: &[&str] = &[
    "insert", "insert_unique", "shift_remove", "take", "get_or_insert", "get_or_insert_owned", "insert_nat",
    "shift_remove_nat",
];

impl SetSys {
    fn new(pat: Pat, nfill: usize) -> SetSys {
        let mut s = SetSys {
            pat,
            real: SmallSet::new(),
            model: vec![],
            other: SmallSet::new(),
            other_model: vec![],
        };
        for i in 0..nfill {
            let k = Key(4 + i as u8);
            s.real.insert_hashed(hk(pat, k));
            s.model.push((k, pat.hash(k)));
        }
        for k in [Key(1), Key(9), Key(3), Key(30)] {
            s.other.insert_hashed(hk(pat, k));
            s.other_model.push(k);
        }
        s
    }
}

impl Sys for SetSys {
    fn canon(&self) -> Vec<u8> {
        let mut v = vec![];
        for k in self.real.iter_hashed() {
            v.push(k.key().0);
            v.extend_from_slice(&k.hash().get().to_le_bytes());
        }
        v.push(0xff);
        v.extend_from_slice(&(self.real.capacity() as u32).to_le_bytes());
        v
    }
    fn nops(&self) -> usize {
        SET_GLOBAL_OPS.len() + SET_KEY_OPS.len() * 4
    }
    fn op_name(&self, i: usize) -> String {
        if i < SET_GLOBAL_OPS.len() {
            SET_GLOBAL_OPS[i].to_owned()
        } else {
            let j = i - SET_GLOBAL_OPS.len();
            format!("{}(k{})", SET_KEY_OPS[j / 4], j % 4)
        }
    }
    fn apply(&mut self, i: usize) -> Result<bool, String> {
        let pat = self.pat;
        let len = self.model.len();
        if i < SET_GLOBAL_OPS.len() {
            match SET_GLOBAL_OPS[i] {
                "pop" => {
                    let r = self.real.pop();
                    let m = self.model.pop().map(|e| e.0);
                    ensure!(r == m, "pop {:?} vs {:?}", r, m);
                }
                n @ ("rm_idx_0" | "rm_idx_last" | "rm_idx_oob") => {
                    let idx = match n {
                        "rm_idx_0" => 0,
                        "rm_idx_last" => len.wrapping_sub(1),
                        _ => len,
                    };
                    let r = self.real.shift_remove_index(idx);
                    let m = if idx < len { Some(self.model.remove(idx).0) } else { None };
                    ensure!(r == m, "shift_remove_index({idx}) {:?} vs {:?}", r, m);
                }
                "retain_not_k0" => {
                    self.real.retain(|k| *k != Key(0));
                    self.model.retain(|e| e.0 != Key(0));
                }
                "retain_even_pos" => {
                    let mut c = 0;
                    self.real.retain(|_| {
                        c += 1;
                        c % 2 == 1
                    });
                    let mut c = 0;
                    self.model.retain(|_| {
                        c += 1;
                        c % 2 == 1
                    });
                }
                "sort" => {
                    self.real.sort();
                    self.model.sort_by_key(|e| e.0);
                }
                "reverse" => {
                    self.real.reverse();
                    self.model.reverse();
                }
                "clear" => {
                    self.real.clear();
                    self.model.clear();
                }
                "reserve20" => self.real.reserve(20),
                "clone" => self.real = self.real.clone(),
                "extend" => {
                    if pat != Pat::Natural {
                        return Ok(false);
                    }
                    self.real.extend(vec![Key(2), Key(0)]);
                    for k in [Key(2), Key(0)] {
                        if !self.model.iter().any(|e| e.0 == k) {
                            self.model.push((k, pat.hash(k)));
                        }
                    }
                }
                "rebuild_hashed" => {
                    let old = std::mem::take(&mut self.real);
                    let mut n = SmallSet::new();
                    for k in old.into_iter_hashed() {
                        n.insert_hashed_unique_unchecked(k);
                    }
                    self.real = n;
                }
                x => return Err(format!("unknown op {x}")),
            }
            return Ok(true);
        }
        let j = i - SET_GLOBAL_OPS.len();
        let k = Key((j % 4) as u8);
        let h = hk(pat, k);
        let pos = self.model.iter().position(|e| e.0 == k);
        match SET_KEY_OPS[j / 4] {
            "insert" => {
                let r = self.real.insert_hashed(h);
                if pos.is_none() {
                    self.model.push((k, h.hash().get()));
                }
                ensure!(r == pos.is_none(), "insert returned {r}");
            }
            "insert_unique" => {
                if pos.is_some() {
                    return Ok(false);
                }
                self.real.insert_hashed_unique_unchecked(h);
                self.model.push((k, h.hash().get()));
            }
            "shift_remove" => {
                let r = self.real.shift_remove_hashed(h.as_ref());
                if let Some(p) = pos {
                    self.model.remove(p);
                }
                ensure!(r == pos.is_some(), "shift_remove returned {r}");
            }
            n @ ("take" | "get_or_insert" | "get_or_insert_owned" | "insert_nat" | "shift_remove_nat") => {
                if pat != Pat::Natural {
                    return Ok(false);
                }
                match n {
                    "take" => {
                        let r = self.real.take(&k);
                        let m = pos.map(|p| self.model.remove(p).0);
                        ensure!(r == m, "take {:?} vs {:?}", r, m);
                    }
                    "get_or_insert" => {
                        let r = *self.real.get_or_insert(k);
                        ensure!(r == k, "get_or_insert");
                        if pos.is_none() {
                            self.model.push((k, h.hash().get()));
                        }
                    }
                    "get_or_insert_owned" => {
                        let r = *self.real.get_or_insert_owned(&k);
                        ensure!(r == k, "get_or_insert_owned");
                        if pos.is_none() {
                            self.model.push((k, h.hash().get()));
                        }
                    }
                    "insert_nat" => {
                        let r = self.real.insert(k);
                        if pos.is_none() {
                            self.model.push((k, h.hash().get()));
                        }
                        ensure!(r == pos.is_none(), "insert(nat) returned {r}");
                    }
                    _ => {
                        let r = self.real.shift_remove(&k);
                        if let Some(p) = pos {
                            self.model.remove(p);
                        }
                        ensure!(r == pos.is_some(), "shift_remove(nat) returned {r}");
                    }
                }
            }
            x => return Err(format!("unknown op {x}")),
        }
        Ok(true)
    }
    fn check(&self) -> Result<(), String> {
        let r = &self.real;
        let mk: Vec<Key> = self.model.iter().map(|e| e.0).collect();
        ensure!(r.len() == mk.len() && r.is_empty() == mk.is_empty(), "len");
        ensure!(r.iter().copied().collect::<Vec<_>>() == mk, "iter {:?} vs {:?}", r.iter().collect::<Vec<_>>(), mk);
        let ih: Vec<(Key, u32)> = r.iter_hashed().map(|k| (**k.key(), k.hash().get())).collect();
        ensure!(ih == self.model, "iter_hashed");
        ensure!(r.first().copied() == mk.first().copied() && r.last().copied() == mk.last().copied(), "first/last");
        for i in 0..=mk.len() {
            ensure!(r.get_index(i).copied() == mk.get(i).copied(), "get_index({i})");
        }
        for k in (0..24).map(Key) {
            let h = hk(self.pat, k);
            let pos = mk.iter().position(|x| *x == k);
            ensure!(r.contains_hashed(h.as_ref()) == pos.is_some(), "contains_hashed({:?})", k);
            ensure!(r.get_hashed(h.as_ref()).copied() == pos.map(|_| k), "get_hashed({:?})", k);
            ensure!(r.get_index_of_hashed(h.as_ref()) == pos, "get_index_of_hashed({:?})", k);
            ensure!(r.get_index_of_hashed_by_value(h) == pos, "get_index_of_hashed_by_value({:?})", k);
            if self.pat == Pat::Natural {
                ensure!(r.contains(&k) == pos.is_some(), "contains({:?})", k);
                ensure!(r.get(&k).copied() == pos.map(|_| k), "get({:?})", k);
                ensure!(r.get_index_of(&k) == pos, "get_index_of({:?})", k);
            }
        }
        // union / difference against a fixed other set (they hash elements themselves)
        if self.pat != Pat::Natural {
            let c = r.clone();
            ensure!(c == *r && c.eq_ordered(r), "clone eq");
            ensure!(c.into_iter().collect::<Vec<_>>() == mk, "into_iter");
            return Ok(());
        }
        let u: Vec<Key> = r.union(&self.other).copied().collect();
        let mut mu = mk.clone();
        for k in &self.other_model {
            if !mk.contains(k) {
                mu.push(*k);
            }
        }
        ensure!(u == mu, "union {:?} vs {:?}", u, mu);
        let d: Vec<Key> = r.difference(&self.other).copied().collect();
        let md: Vec<Key> = mk.iter().copied().filter(|k| !self.other_model.contains(k)).collect();
        ensure!(d == md, "difference {:?} vs {:?}", d, md);
        let c = r.clone();
        ensure!(c == *r && c.eq_ordered(r), "clone eq");
        ensure!(c.into_iter().collect::<Vec<_>>() == mk, "into_iter");
        Ok(())
    }
}

// ---------------------------------------------------------------------------
// Vec2

#[derive(Clone)]
pub struct Vec2Sys {
    real: Vec2<u8, u16>,
    model: Vec<(u8, u16)>,
    next: u8,
    maxlen: usize,
}

const VEC2_OPS: &[&str] = &[
    "push", "push3", "pop", "remove0", "remove_mid", "remove_last", "clear", "truncate0", "truncate_half",
    "truncate_big", "retain_even", "retain_none", "retain_all", "retain_first_only", "shrink_to_fit",
    "reserve0", "reserve1", "reserve9", "sort_by_a_desc", "sort_by_b", "clone", "collect_roundtrip",
    "iter_mut_bump", "extend2",
];

impl Sys for Vec2Sys {
    fn canon(&self) -> Vec<u8> {
        let mut v = vec![];
        for (a, b) in self.real.iter() {
            v.push(*a);
            v.extend_from_slice(&b.to_le_bytes());
        }
        v.push(0xff);
        v.extend_from_slice(&(self.real.capacity() as u32).to_le_bytes());
        v.push(self.next);
        v
    }
    fn nops(&self) -> usize {
        VEC2_OPS.len()
    }
    fn op_name(&self, i: usize) -> String {
        VEC2_OPS[i].to_owned()
    }
    fn apply(&mut self, i: usize) -> Result<bool, String> {
        let len = self.model.len();
        match VEC2_OPS[i] {
            "push" => {
                if len >= self.maxlen {
                    return Ok(false);
                }
                let a = self.next;
                self.next = (self.next + 1) % 5;
                self.real.push(a, a as u16 * 257 + 1);
                self.model.push((a, a as u16 * 257 + 1));
            }
            "push3" => {
                if len + 3 > self.maxlen {
                    return Ok(false);
                }
                for _ in 0..3 {
                    let a = self.next;
                    self.next = (self.next + 1) % 5;
                    self.real.push(a, 7);
                    self.model.push((a, 7));
                }
            }
            "pop" => {
                let r = self.real.pop();
                let m = self.model.pop();
                ensure!(r == m, "pop {:?} vs {:?}", r, m);
            }
            n @ ("remove0" | "remove_mid" | "remove_last") => {
                if len == 0 {
                    return Ok(false);
                }
                let idx = match n {
                    "remove0" => 0,
                    "remove_mid" => len / 2,
                    _ => len - 1,
                };
                let r = self.real.remove(idx);
                let m = self.model.remove(idx);
                ensure!(r == m, "remove({idx}) {:?} vs {:?}", r, m);
            }
            "clear" => {
                self.real.clear();
                self.model.clear();
            }
            "truncate0" => {
                self.real.truncate(0);
                self.model.truncate(0);
            }
            "truncate_half" => {
                self.real.truncate(len / 2);
                self.model.truncate(len / 2);
            }
            "truncate_big" => {
                self.real.truncate(len + 5);
            }
            "retain_even" => {
                self.real.retain(|a, _| *a % 2 == 0);
                self.model.retain(|e| e.0 % 2 == 0);
            }
            "retain_none" => {
                self.real.retain(|_, _| false);
                self.model.clear();
            }
            "retain_all" => self.real.retain(|_, _| true),
            "retain_first_only" => {
                let mut c = 0;
                self.real.retain(|_, _| {
                    c += 1;
                    c == 1
                });
                self.model.truncate(1);
            }
            "shrink_to_fit" => self.real.shrink_to_fit(),
            "reserve0" => self.real.reserve(0),
            "reserve1" => self.real.reserve(1),
            "reserve9" => self.real.reserve(9),
            "sort_by_a_desc" => {
                self.real.sort_by(|x, y| y.0.cmp(x.0));
                self.model.sort_by(|x, y| y.0.cmp(&x.0));
            }
            "sort_by_b" => {
                self.real.sort_by(|x, y| x.1.cmp(y.1));
                self.model.sort_by(|x, y| x.1.cmp(&y.1));
            }
            "clone" => self.real = self.real.clone(),
            "collect_roundtrip" => {
                let old = std::mem::take(&mut self.real);
                self.real = old.into_iter().collect();
            }
            "iter_mut_bump" => {
                for i in 0..self.real.len() {
                    let (a, b) = self.real.get_mut(i).unwrap();
                    *b = b.wrapping_add(*a as u16) % 1000;
                }
                for e in &mut self.model {
                    e.1 = e.1.wrapping_add(e.0 as u16) % 1000;
                }
            }
            "extend2" => {
                if len + 2 > self.maxlen {
                    return Ok(false);
                }
                self.real.extend(vec![(9u8, 9u16), (8, 8)]);
                self.model.extend(vec![(9u8, 9u16), (8, 8)]);
            }
            x => return Err(format!("unknown op {x}")),
        }
        Ok(true)
    }
    fn check(&self) -> Result<(), String> {
        let r = &self.real;
        let m = &self.model;
        ensure!(r.len() == m.len() && r.is_empty() == m.is_empty(), "len {} vs {}", r.len(), m.len());
        ensure!(r.capacity() >= r.len(), "capacity < len");
        let it: Vec<(u8, u16)> = r.iter().map(|(a, b)| (*a, *b)).collect();
        ensure!(&it == m, "iter {:?} vs {:?}", it, m);
        let mut rv: Vec<(u8, u16)> = r.iter().rev().map(|(a, b)| (*a, *b)).collect();
        rv.reverse();
        ensure!(&rv == m, "iter().rev()");
        ensure!(r.iter().len() == m.len(), "iter len");
        for i in 0..=m.len() {
            ensure!(r.get(i).map(|(a, b)| (*a, *b)) == m.get(i).copied(), "get({i})");
        }
        ensure!(r.first().map(|(a, b)| (*a, *b)) == m.first().copied(), "first");
        ensure!(r.last().map(|(a, b)| (*a, *b)) == m.last().copied(), "last");
        let c = r.clone();
        ensure!(c == *r, "clone eq");
        ensure!(c.into_iter().collect::<Vec<_>>() == *m, "into_iter");
        let c2 = r.clone();
        let mut ii = c2.into_iter();
        let a = ii.next();
        let b = ii.next_back();
        ensure!(a == m.first().copied(), "into_iter next");
        ensure!(b == if m.len() >= 2 { m.last().copied() } else { None }, "into_iter next_back");
        drop(ii);
        Ok(())
    }
}

// ---------------------------------------------------------------------------
// UnorderedMap (set-of-pairs oracle) / UnorderedSet

/// keys of the unordered-map universe (capacity steps 3 -> 7 -> 14: growth at the 4th and the 8th insertion)
const UK: usize = 9;

#[derive(Clone)]
pub struct UnordSys {
    real: UnorderedMap<Key, u8>,
    rset: UnorderedSet<Key>,
    model: Vec<(Key, u8)>,
}

const UNORD_OPS: &[&str] = &[
    "insert0", "insert1", "remove", "entry_or1", "entry_occ_set0", "raw_from_key_insert", "raw_from_key_remove",
    "raw_hashed_set1", "get_mut_flip",
];
const UNORD_GLOBAL: &[&str] = &["clear", "retain_val0", "retain_flip_keep_all", "clone", "map_values_id", "values_mut_zero"];

impl Sys for UnordSys {
    fn canon(&self) -> Vec<u8> {
        let mut m = self.model.clone();
        m.sort();
        let mut v = vec![];
        for (k, x) in m {
            v.push(k.0);
            v.push(x);
        }
        v
    }
    fn nops(&self) -> usize {
        UNORD_GLOBAL.len() + UNORD_OPS.len() * UK
    }
    fn op_name(&self, i: usize) -> String {
        if i < UNORD_GLOBAL.len() {
            UNORD_GLOBAL[i].to_owned()
        } else {
            let j = i - UNORD_GLOBAL.len();
            format!("{}(k{})", UNORD_OPS[j / UK], j % UK)
        }
    }
    fn apply(&mut self, i: usize) -> Result<bool, String> {
        if i < UNORD_GLOBAL.len() {
            match UNORD_GLOBAL[i] {
                "clear" => {
                    self.real.clear();
                    self.rset.clear();
                    self.model.clear();
                }
                "retain_val0" => {
                    self.real.retain(|_, v| *v == 0);
                    self.model.retain(|e| e.1 == 0);
                    // mirror in set
                    let keep: Vec<Key> = self.model.iter().map(|e| e.0).collect();
                    let mut n = UnorderedSet::new();
                    for k in keep {
                        n.insert(k);
                    }
                    self.rset = n;
                }
                "retain_flip_keep_all" => {
                    self.real.retain(|_, v| {
                        *v ^= 1;
                        true
                    });
                    for e in &mut self.model {
                        e.1 ^= 1;
                    }
                }
                "clone" => {
                    self.real = self.real.clone();
                    self.rset = self.rset.clone();
                }
                "map_values_id" => {
                    let old = std::mem::take(&mut self.real);
                    self.real = old.map_values(|v| v);
                }
                "values_mut_zero" => {
                    for v in self.real.values_unordered_mut() {
                        *v = 0;
                    }
                    for e in &mut self.model {
                        e.1 = 0;
                    }
                }
                x => return Err(format!("unknown op {x}")),
            }
            return Ok(true);
        }
        let j = i - UNORD_GLOBAL.len();
        let k = Key((j % UK) as u8);
        let pos = self.model.iter().position(|e| e.0 == k);
        use starlark_map::unordered_map::Entry as UE;
        use starlark_map::unordered_map::RawEntryMut;
        match UNORD_OPS[j / UK] {
            n @ ("insert0" | "insert1") => {
                let v = if n == "insert0" { 0 } else { 1 };
                let r = self.real.insert(k, v);
                let rs = self.rset.insert(k);
                let m = match pos {
                    Some(p) => Some(std::mem::replace(&mut self.model[p].1, v)),
                    None => {
                        self.model.push((k, v));
                        None
                    }
                };
                ensure!(r == m, "insert {:?} vs {:?}", r, m);
                ensure!(rs == pos.is_none(), "set insert {rs}");
            }
            "remove" => {
                let r = self.real.remove(&k);
                let m = pos.map(|p| self.model.remove(p).1);
                ensure!(r == m, "remove {:?} vs {:?}", r, m);
                match self.rset.raw_entry_mut().from_entry(&k) {
                    starlark_map::unordered_set::RawEntryMut::Occupied(o) => {
                        ensure!(pos.is_some(), "set occupied but model absent");
                        o.remove();
                    }
                    starlark_map::unordered_set::RawEntryMut::Vacant(_) => {
                        ensure!(pos.is_none(), "set vacant but model present");
                    }
                }
            }
            "entry_or1" => {
                match self.real.entry(k) {
                    UE::Occupied(o) => {
                        ensure!(pos.is_some() && *o.get() == self.model[pos.unwrap()].1, "entry occupied mismatch");
                    }
                    UE::Vacant(v) => {
                        ensure!(pos.is_none(), "entry vacant mismatch");
                        v.insert(1);
                        self.model.push((k, 1));
                        self.rset.insert(k);
                    }
                }
            }
            "entry_occ_set0" => match self.real.entry(k) {
                UE::Occupied(mut o) => {
                    ensure!(pos.is_some(), "entry occupied mismatch");
                    let old = o.insert(0);
                    ensure!(old == self.model[pos.unwrap()].1, "occupied insert returned {old}");
                    self.model[pos.unwrap()].1 = 0;
                }
                UE::Vacant(_) => ensure!(pos.is_none(), "entry vacant mismatch"),
            },
            "raw_from_key_insert" => match self.real.raw_entry_mut().from_key(&k) {
                RawEntryMut::Occupied(mut o) => {
                    ensure!(pos.is_some(), "raw occupied mismatch");
                    let old = o.insert(1);
                    ensure!(old == self.model[pos.unwrap()].1, "raw insert old {old}");
                    self.model[pos.unwrap()].1 = 1;
                }
                RawEntryMut::Vacant(v) => {
                    ensure!(pos.is_none(), "raw vacant mismatch");
                    v.insert(k, 0);
                    self.model.push((k, 0));
                    self.rset.insert(k);
                }
            },
            "raw_from_key_remove" => match self.real.raw_entry_mut().from_key(&k) {
                RawEntryMut::Occupied(o) => {
                    ensure!(pos.is_some(), "raw occupied mismatch");
                    let (rk, rv) = o.remove_entry();
                    let e = self.model.remove(pos.unwrap());
                    ensure!((rk, rv) == e, "remove_entry {:?} vs {:?}", (rk, rv), e);
                    if let starlark_map::unordered_set::RawEntryMut::Occupied(o) =
                        self.rset.raw_entry_mut().from_entry(&k)
                    {
                        o.remove();
                    }
                }
                RawEntryMut::Vacant(_) => ensure!(pos.is_none(), "raw vacant mismatch"),
            },
            "raw_hashed_set1" => {
                let h = Hashed::new(k);
                match self.real.raw_entry_mut().from_key_hashed(h.as_ref()) {
                    RawEntryMut::Occupied(mut o) => {
                        ensure!(pos.is_some(), "raw hashed occupied mismatch");
                        *o.get_mut() = 1;
                        self.model[pos.unwrap()].1 = 1;
                    }
                    RawEntryMut::Vacant(v) => {
                        ensure!(pos.is_none(), "raw hashed vacant mismatch");
                        v.insert_hashed(h, 1);
                        self.model.push((k, 1));
                        self.rset.insert(k);
                    }
                }
            }
            "get_mut_flip" => match (self.real.get_mut(&k), pos) {
                (Some(v), Some(p)) => {
                    *v ^= 1;
                    self.model[p].1 ^= 1;
                }
                (None, None) => {}
                _ => return Err("get_mut mismatch".to_owned()),
            },
            x => return Err(format!("unknown op {x}")),
        }
        Ok(true)
    }
    fn check(&self) -> Result<(), String> {
        let mut m = self.model.clone();
        m.sort();
        ensure!(self.real.len() == m.len() && self.real.is_empty() == m.is_empty(), "len");
        ensure!(self.rset.len() == m.len(), "set len {} vs {}", self.rset.len(), m.len());
        let es: Vec<(Key, u8)> = self.real.entries_sorted().into_iter().map(|(k, v)| (*k, *v)).collect();
        ensure!(es == m, "entries_sorted {:?} vs {:?}", es, m);
        let mut eu: Vec<(Key, u8)> = self.real.entries_unordered().map(|(k, v)| (*k, *v)).collect();
        eu.sort();
        ensure!(eu == m, "entries_unordered");
        let ss: Vec<Key> = self.rset.entries_sorted().into_iter().copied().collect();
        ensure!(ss == m.iter().map(|e| e.0).collect::<Vec<_>>(), "set entries_sorted");
        for k in (0..(UK as u8 + 1)).map(Key) {
            let v = m.iter().find(|e| e.0 == k).map(|e| e.1);
            ensure!(self.real.get(&k).copied() == v, "get({:?})", k);
            ensure!(self.real.get_hashed(Hashed::new(&k)).copied() == v, "get_hashed({:?})", k);
            ensure!(self.real.contains_key(&k) == v.is_some(), "contains_key({:?})", k);
            ensure!(self.real.contains_key_hashed(Hashed::new(&k)) == v.is_some(), "contains_key_hashed");
            ensure!(self.rset.contains(&k) == v.is_some(), "set contains({:?})", k);
            ensure!(self.rset.contains_hashed(Hashed::new(&k)) == v.is_some(), "set contains_hashed");
        }
        let c = self.real.clone();
        ensure!(c == self.real, "clone eq");
        let hm = c.into_hash_map();
        ensure!(hm.len() == m.len() && m.iter().all(|e| hm.get(&e.0) == Some(&e.1)), "into_hash_map");
        // hash is order independent: equal to the hash of a map built in sorted order
        let mut fresh = UnorderedMap::new();
        for e in &m {
            fresh.insert(e.0, e.1);
        }
        let mut h1 = std::collections::hash_map::DefaultHasher::new();
        let mut h2 = std::collections::hash_map::DefaultHasher::new();
        self.real.hash(&mut h1);
        fresh.hash(&mut h2);
        ensure!(h1.finish() == h2.finish(), "Hash differs between insertion histories");
        ensure!(fresh == self.real, "Eq differs between insertion histories");
        Ok(())
    }
}

// ---------------------------------------------------------------------------
// OrderedMap / OrderedSet / SortedMap / SortedSet: thin wrappers, natural hashes

#[derive(Clone)]
pub struct OrdSys {
    real: OrderedMap<Key, u8>,
    rset: OrderedSet<Key>,
    model: Vec<(Key, u8)>,
}

const ORD_KEY_OPS: &[&str] = &["insert0", "insert1", "remove", "entry_or1", "get_mut_flip", "set_try_insert", "set_take"];
const ORD_GLOBAL: &[&str] = &["clear", "sort_keys", "clone", "values_mut_zero", "iter_mut_flip", "set_reverse_both"];

impl Sys for OrdSys {
    fn canon(&self) -> Vec<u8> {
        let mut v = vec![];
        for (k, x) in &self.model {
            v.push(k.0);
            v.push(*x);
        }
        v
    }
    fn nops(&self) -> usize {
        ORD_GLOBAL.len() + ORD_KEY_OPS.len() * 5
    }
    fn op_name(&self, i: usize) -> String {
        if i < ORD_GLOBAL.len() {
            ORD_GLOBAL[i].to_owned()
        } else {
            let j = i - ORD_GLOBAL.len();
            format!("{}(k{})", ORD_KEY_OPS[j / 5], j % 5)
        }
    }
    fn apply(&mut self, i: usize) -> Result<bool, String> {
        if i < ORD_GLOBAL.len() {
            match ORD_GLOBAL[i] {
                "clear" => {
                    self.real.clear();
                    self.rset.clear();
                    self.model.clear();
                }
                "sort_keys" => {
                    self.real.sort_keys();
                    self.rset.sort();
                    self.model.sort_by_key(|e| e.0);
                }
                "clone" => {
                    self.real = self.real.clone();
                    self.rset = self.rset.clone();
                }
                "values_mut_zero" => {
                    for v in self.real.values_mut() {
                        *v = 0;
                    }
                    for e in &mut self.model {
                        e.1 = 0;
                    }
                }
                "iter_mut_flip" => {
                    for (_, v) in self.real.iter_mut() {
                        *v ^= 1;
                    }
                    for e in &mut self.model {
                        e.1 ^= 1;
                    }
                }
                "set_reverse_both" => {
                    // OrderedMap has no reverse: rebuild it reversed so the pair stays aligned
                    self.rset.reverse();
                    self.model.reverse();
                    let mut n = OrderedMap::new();
                    for (k, v) in &self.model {
                        n.insert(*k, *v);
                    }
                    self.real = n;
                }
                x => return Err(format!("unknown op {x}")),
            }
            return Ok(true);
        }
        let j = i - ORD_GLOBAL.len();
        let k = Key((j % 5) as u8 * 3 % 7);
        let pos = self.model.iter().position(|e| e.0 == k);
        match ORD_KEY_OPS[j / 5] {
            n @ ("insert0" | "insert1") => {
                let v = if n == "insert0" { 0 } else { 1 };
                let r = self.real.insert(k, v);
                let rs = self.rset.insert(k);
                let m = match pos {
                    Some(p) => Some(std::mem::replace(&mut self.model[p].1, v)),
                    None => {
                        self.model.push((k, v));
                        None
                    }
                };
                ensure!(r == m && rs == pos.is_none(), "insert {:?} vs {:?}", r, m);
            }
            "remove" => {
                let r = self.real.remove(&k);
                let rs = self.rset.take(&k);
                let m = pos.map(|p| self.model.remove(p).1);
                ensure!(r == m, "remove {:?} vs {:?}", r, m);
                ensure!(rs == pos.map(|_| k), "set take");
            }
            "entry_or1" => {
                let r = *self.real.entry(k).or_insert(1);
                let m = match pos {
                    Some(p) => self.model[p].1,
                    None => {
                        self.model.push((k, 1));
                        self.rset.insert_unique_unchecked(k);
                        1
                    }
                };
                ensure!(r == m, "entry.or_insert {r} vs {m}");
            }
            "get_mut_flip" => match (self.real.get_mut(&k), pos) {
                (Some(v), Some(p)) => {
                    *v ^= 1;
                    self.model[p].1 ^= 1;
                }
                (None, None) => {}
                _ => return Err("get_mut mismatch".to_owned()),
            },
            "set_try_insert" => {
                let r = self.rset.try_insert(k).is_ok();
                ensure!(r == pos.is_none(), "try_insert {r}");
                if pos.is_none() {
                    self.real.insert(k, 0);
                    self.model.push((k, 0));
                }
            }
            "set_take" => {
                let r = self.rset.take(&k);
                ensure!(r == pos.map(|_| k), "take");
                if let Some(p) = pos {
                    self.real.remove(&k);
                    self.model.remove(p);
                }
            }
            x => return Err(format!("unknown op {x}")),
        }
        Ok(true)
    }
    fn check(&self) -> Result<(), String> {
        let m = &self.model;
        let r = &self.real;
        ensure!(r.len() == m.len() && self.rset.len() == m.len(), "len");
        ensure!(r.iter().map(|(k, v)| (*k, *v)).collect::<Vec<_>>() == *m, "iter");
        ensure!(r.keys().copied().collect::<Vec<_>>() == m.iter().map(|e| e.0).collect::<Vec<_>>(), "keys");
        ensure!(r.values().copied().collect::<Vec<_>>() == m.iter().map(|e| e.1).collect::<Vec<_>>(), "values");
        ensure!(self.rset.iter().copied().collect::<Vec<_>>() == m.iter().map(|e| e.0).collect::<Vec<_>>(), "set iter");
        ensure!(self.rset.first().copied() == m.first().map(|e| e.0) && self.rset.last().copied() == m.last().map(|e| e.0), "set first/last");
        for i in 0..=m.len() {
            ensure!(r.get_index(i).map(|(k, v)| (*k, *v)) == m.get(i).copied(), "get_index");
            ensure!(self.rset.get_index(i).copied() == m.get(i).map(|e| e.0), "set get_index");
        }
        for k in (0..8).map(Key) {
            let pos = m.iter().position(|e| e.0 == k);
            ensure!(r.get(&k).copied() == pos.map(|p| m[p].1), "get");
            ensure!(r.contains_key(&k) == pos.is_some(), "contains_key");
            ensure!(r.get_index_of(&k) == pos, "get_index_of");
            ensure!(self.rset.contains(&k) == pos.is_some(), "set contains");
            ensure!(self.rset.get(&k).copied() == pos.map(|_| k), "set get");
            ensure!(self.rset.get_index_of(&k) == pos, "set get_index_of");
        }
        // Ordered Eq/Hash/Ord: differential against a map built by direct insertion
        let mut fresh = OrderedMap::new();
        let mut fset = OrderedSet::new();
        for (k, v) in m {
            fresh.insert(*k, *v);
            fset.insert(*k);
        }
        ensure!(fresh == *r && fset == self.rset, "Eq vs rebuilt");
        ensure!(fresh.cmp(r) == std::cmp::Ordering::Equal, "Ord vs rebuilt");
        let mut h1 = std::collections::hash_map::DefaultHasher::new();
        let mut h2 = std::collections::hash_map::DefaultHasher::new();
        r.hash(&mut h1);
        fresh.hash(&mut h2);
        ensure!(h1.finish() == h2.finish(), "Hash vs rebuilt");
        // Sorted views
        let sm: SortedMap<Key, u8> = m.iter().copied().collect();
        let mut ms = m.clone();
        ms.sort();
        ensure!(sm.iter().map(|(k, v)| (*k, *v)).collect::<Vec<_>>() == ms, "SortedMap iter {:?}", ms);
        ensure!(sm.len() == ms.len(), "SortedMap len");
        let ss: SortedSet<Key> = m.iter().map(|e| e.0).collect();
        ensure!(ss.iter().copied().collect::<Vec<_>>() == ms.iter().map(|e| e.0).collect::<Vec<_>>(), "SortedSet iter");
        for k in (0..8).map(Key) {
            let v = ms.iter().find(|e| e.0 == k).map(|e| e.1);
            ensure!(sm.get(&k).copied() == v && sm.contains_key(&k) == v.is_some(), "SortedMap get");
            ensure!(ss.contains(&k) == v.is_some() && ss.get(&k).copied() == v.map(|_| k), "SortedSet get");
        }
        for i in 0..=ms.len() {
            ensure!(ss.get_index(i).copied() == ms.get(i).map(|e| e.0), "SortedSet get_index");
        }
        // sorted-ness is independent of insertion history: from reversed input too
        let mut rev = m.clone();
        rev.reverse();
        let sm2: SortedMap<Key, u8> = rev.into_iter().collect();
        ensure!(sm2 == sm, "SortedMap differs by insertion order");
        let mut h1 = std::collections::hash_map::DefaultHasher::new();
        let mut h2 = std::collections::hash_map::DefaultHasher::new();
        sm.hash(&mut h1);
        sm2.hash(&mut h2);
        ensure!(h1.finish() == h2.finish(), "SortedMap hash differs by insertion order");
        Ok(())
    }
}

// ---------------------------------------------------------------------------
// BFS

pub struct Stats {
    pub states: usize,
    pub transitions: usize,
    pub max_depth: usize,
    pub closed: bool,
    pub violation: Option<(Vec<String>, Vec<usize>, String)>,
}

pub fn bfs<S: Sys>(start: S, depth_cap: usize, state_cap: usize) -> Stats {
    let mut seen: HashSet<Vec<u8>> = HashSet::new();
    // parent pointers for trace reconstruction
    let mut parents: Vec<(usize, usize)> = vec![(usize::MAX, 0)];
    let mut frontier: Vec<(S, usize)> = vec![];
    let mut st = Stats { states: 0, transitions: 0, max_depth: 0, closed: false, violation: None };
    if let Err(e) = start.check() {
        st.violation = Some((vec![], vec![], format!("start state: {e}")));
        return st;
    }
    seen.insert(start.canon());
    frontier.push((start, 0));
    st.states = 1;
    let trace = |parents: &Vec<(usize, usize)>, mut id: usize, last: usize, s: &S| {
        let mut ops = vec![last];
        while parents[id].0 != usize::MAX {
            ops.push(parents[id].1);
            id = parents[id].0;
        }
        ops.reverse();
        (ops.iter().map(|o| s.op_name(*o)).collect::<Vec<_>>(), ops)
    };
    let mut depth = 0;
    while !frontier.is_empty() {
        if depth >= depth_cap {
            return st;
        }
        let mut next = vec![];
        for (s, id) in frontier {
            for op in 0..s.nops() {
                let mut t = s.clone();
                let r = panic::catch_unwind(panic::AssertUnwindSafe(|| {
                    let a = t.apply(op)?;
                    if a {
                        t.check()?;
                    }
                    Ok::<bool, String>(a)
                }));
                let r = match r {
                    Ok(r) => r,
                    Err(_) => Err(format!("panic: {}", crate::take_panic())),
                };
                match r {
                    Ok(false) => continue,
                    Ok(true) => {}
                    Err(e) => {
                        let (names, ops) = trace(&parents, id, op, &s);
                        st.violation = Some((names, ops, e));
                        return st;
                    }
                }
                st.transitions += 1;
                let c = t.canon();
                if seen.insert(c) {
                    st.states += 1;
                    parents.push((id, op));
                    next.push((t, parents.len() - 1));
                    if st.states >= state_cap {
                        st.max_depth = depth + 1;
                        return st;
                    }
                }
            }
        }
        depth += 1;
        if !next.is_empty() {
            st.max_depth = depth;
        }
        frontier = next;
    }
    st.closed = true;
    st
}

fn run_job(job: &str, depth_cap: usize, state_cap: usize) -> Stats {
    let parts: Vec<&str> = job.split('/').collect();
    let pat = |s: &str| Pat::all().into_iter().find(|p| format!("{:?}", p) == s).expect("pattern");
    match parts[0] {
        "map" => bfs(MapSys::new(pat(parts[1]), parts[2]), depth_cap, state_cap),
        "set" => bfs(SetSys::new(pat(parts[1]), parts[2].parse().unwrap()), depth_cap, state_cap),
        "vec2" => bfs(
            Vec2Sys { real: Vec2::new(), model: vec![], next: 0, maxlen: parts[1].parse().unwrap() },
            depth_cap,
            state_cap,
        ),
        "vec2cap" => bfs(
            Vec2Sys { real: Vec2::with_capacity(3), model: vec![], next: 0, maxlen: parts[1].parse().unwrap() },
            depth_cap,
            state_cap,
        ),
        "unord" => bfs(
            UnordSys { real: UnorderedMap::new(), rset: UnorderedSet::new(), model: vec![] },
            depth_cap,
            state_cap,
        ),
        "ord" => bfs(
            OrdSys { real: OrderedMap::new(), rset: OrderedSet::new(), model: vec![] },
            depth_cap,
            state_cap,
        ),
        x => panic!("unknown job {x}"),
    }
}

fn replay_job(job: &str, ops: &[usize]) -> Result<(), String> {
    fn go<S: Sys>(mut s: S, ops: &[usize]) -> Result<(), String> {
        s.check()?;
        for &op in ops {
            let r = panic::catch_unwind(panic::AssertUnwindSafe(|| {
                s.apply(op)?;
                s.check()
            }));
            match r {
                Ok(r) => r?,
                Err(_) => return Err(format!("panic: {}", crate::take_panic())),
            }
        }
        Ok(())
    }
    let parts: Vec<&str> = job.split('/').collect();
    let pat = |s: &str| Pat::all().into_iter().find(|p| format!("{:?}", p) == s).expect("pattern");
    match parts[0] {
        "map" => go(MapSys::new(pat(parts[1]), parts[2]), ops),
        "set" => go(SetSys::new(pat(parts[1]), parts[2].parse().unwrap()), ops),
        "vec2" => go(Vec2Sys { real: Vec2::new(), model: vec![], next: 0, maxlen: parts[1].parse().unwrap() }, ops),
        "vec2cap" => go(
            Vec2Sys { real: Vec2::with_capacity(3), model: vec![], next: 0, maxlen: parts[1].parse().unwrap() },
            ops,
        ),
        "unord" => go(UnordSys { real: UnorderedMap::new(), rset: UnorderedSet::new(), model: vec![] }, ops),
        "ord" => go(OrdSys { real: OrderedMap::new(), rset: OrderedSet::new(), model: vec![] }, ops),
        x => panic!("unknown job {x}"),
    }
}

/// stdin: JSONL {"job":..., "depth":..., "states":...} or {"job":..., "replay":[ops]}
pub fn cmd() {
    crate::install_panic_hook();
    use std::io::BufRead;
    use std::io::Write;
    let stdin = std::io::stdin();
    let stdout = std::io::stdout();
    for line in stdin.lock().lines() {
        let line = line.unwrap();
        if line.trim().is_empty() {
            continue;
        }
        let spec: J = serde_json::from_str(&line).unwrap();
        let job = spec["job"].as_str().unwrap();
        let out = if let Some(ops) = spec.get("replay").and_then(|r| r.as_array()) {
            let ops: Vec<usize> = ops.iter().map(|o| o.as_u64().unwrap() as usize).collect();
            let r = replay_job(job, &ops);
            json!({"id": spec["id"], "job": job, "replay_result": r.err()})
        } else {
            let t = std::time::Instant::now();
            let st = run_job(
                job,
                spec["depth"].as_u64().unwrap_or(6) as usize,
                spec["states"].as_u64().unwrap_or(200000) as usize,
            );
            json!({"id": spec["id"], "job": job, "states": st.states, "transitions": st.transitions,
                   "max_depth": st.max_depth, "closed": st.closed, "secs": t.elapsed().as_secs_f64(),
                   "violation": st.violation.map(|(names, ops, e)| json!({"trace": names, "ops": ops, "error": e}))})
        };
        let mut o = stdout.lock();
        writeln!(o, "{}", out).unwrap();
        o.flush().unwrap();
    }
}
