//! Generic program runner: evaluates a JSON "spec" with the real parser/evaluator and
//! returns a canonical JSON outcome.
//!
//! spec = {
//!   "id": any,
//!   "libs": [[name, src], ...]      modules evaluated + frozen in order, loadable by name
//!   "steps": [src, ...]             evaluated in order on ONE Module + ONE Evaluator
//!   "opts": { dialect, globals, gc, max_stack, max_ticks, typecheck, profile, cancel,
//!             preset: {name: json}, fresh_eval_each_step: bool,
//!             freeze_get: [names], call: {"fn": name, "pos":[json], "named": {k: json}} }
//! }

use std::collections::HashMap;

use dupe::Dupe;
use serde_json::Value as J;
use serde_json::json;
use starlark::environment::FrozenModule;
use starlark::environment::Globals;
use starlark::environment::GlobalsBuilder;
use starlark::environment::LibraryExtension;
use starlark::environment::Module;
use starlark::eval::Evaluator;
use starlark::eval::FileLoader;
use starlark::eval::ProfileMode;
use starlark::syntax::AstModule;
use starlark::syntax::Dialect;
use starlark::syntax::DialectTypes;
use starlark::values::Heap;
use starlark::values::Value;

use crate::enc;
use crate::natives::Store;
use crate::natives::harness_natives;

pub struct Loader {
    pub modules: HashMap<String, FrozenModule>,
}

impl FileLoader for Loader {
    fn load(&self, path: &str) -> starlark::Result<FrozenModule> {
        match self.modules.get(path) {
            Some(v) => Ok(v.dupe()),
            None => Err(starlark::Error::new_other(anyhow::anyhow!(
                "unknown module `{}`",
                path
            ))),
        }
    }
}

pub fn dialect_of(name: &str) -> Dialect {
    match name {
        "std" => Dialect::Standard,
        "ext" => Dialect::Extended,
        "none" => Dialect {
            enable_def: false,
            enable_lambda: false,
            enable_load: false,
            enable_keyword_only_arguments: false,
            enable_positional_only_arguments: false,
            enable_types: DialectTypes::Disable,
            enable_load_reexport: false,
            enable_top_level_stmt: false,
            enable_f_strings: false,
            ..Dialect::Standard
        },
        _ => Dialect::AllOptionsInternal,
    }
}

/// All extensions except `breakpoint` (would open a console) .
pub fn extensions() -> Vec<LibraryExtension> {
    use LibraryExtension::*;
    vec![
        StructType,
        RecordType,
        EnumType,
        NamespaceType,
        Map,
        Filter,
        Partial,
        Debug,
        Print,
        Pprint,
        Pstr,
        Prepr,
        Json,
        Typing,
        Internal,
        CallStack,
        SetType,
    ]
}

pub fn globals_of(name: &str) -> Globals {
    static STD: std::sync::OnceLock<Globals> = std::sync::OnceLock::new();
    static EXT: std::sync::OnceLock<Globals> = std::sync::OnceLock::new();
    match name {
        "std" => STD
            .get_or_init(|| GlobalsBuilder::standard().with(harness_natives).build())
            .dupe(),
        _ => EXT
            .get_or_init(|| {
                GlobalsBuilder::extended_by(&extensions())
                    .with(harness_natives)
                    .build()
            })
            .dupe(),
    }
}

pub fn profile_mode_of(name: &str) -> Option<ProfileMode> {
    Some(match name {
        "HeapAllocated" => ProfileMode::HeapAllocated,
        "HeapRetained" => ProfileMode::HeapRetained,
        "HeapSummaryAllocated" => ProfileMode::HeapSummaryAllocated,
        "HeapSummaryRetained" => ProfileMode::HeapSummaryRetained,
        "HeapFlameAllocated" => ProfileMode::HeapFlameAllocated,
        "HeapFlameRetained" => ProfileMode::HeapFlameRetained,
        "Statement" => ProfileMode::Statement,
        "Coverage" => ProfileMode::Coverage,
        "Bytecode" => ProfileMode::Bytecode,
        "BytecodePairs" => ProfileMode::BytecodePairs,
        "TimeFlame" => ProfileMode::TimeFlame,
        "Typecheck" => ProfileMode::Typecheck,
        "None" => ProfileMode::None,
        _ => return None,
    })
}

pub fn json_to_value<'v>(j: &J, heap: Heap<'v>) -> Value<'v> {
    match j {
        J::Null => Value::new_none(),
        J::Bool(b) => Value::new_bool(*b),
        J::Number(n) => {
            if let Some(i) = n.as_i64() {
                heap.alloc(i)
            } else {
                heap.alloc(n.as_f64().unwrap())
            }
        }
        J::String(s) => heap.alloc_str(s).to_value(),
        J::Array(a) => {
            let xs: Vec<Value<'v>> = a.iter().map(|x| json_to_value(x, heap)).collect();
            heap.alloc(xs)
        }
        J::Object(o) => {
            // {"$tuple": [...]} is a tuple; otherwise dict with string keys
            if let Some(J::Array(a)) = o.get("$tuple") {
                let xs: Vec<Value<'v>> = a.iter().map(|x| json_to_value(x, heap)).collect();
                return heap.alloc(starlark::values::tuple::AllocTuple(xs));
            }
            let mut m = starlark::collections::SmallMap::new();
            for (k, v) in o {
                m.insert(k.clone(), json_to_value(v, heap));
            }
            heap.alloc(m)
        }
    }
}

pub fn kind_name(e: &starlark::Error) -> &'static str {
    use starlark::ErrorKind::*;
    match e.kind() {
        Fail(_) => "Fail",
        StackOverflow(_) => "StackOverflow",
        Value(_) => "Value",
        Function(_) => "Function",
        Scope(_) => "Scope",
        Parser(_) => "Parser",
        Freeze(_) => "Freeze",
        Internal(_) => "Internal",
        Native(_) => "Native",
        Other(_) => "Other",
        _ => "Unknown",
    }
}

/// Encode an error: kind, message (no location), span validity, call stack validity.
pub fn err_json(e: &starlark::Error) -> J {
    let msg = format!("{}", e.without_diagnostic());
    let mut resolved = J::Null;
    let (span, span_ok) = match e.span() {
        Some(fs) => {
            let src = fs.file.source();
            let b = fs.span.begin().get() as usize;
            let en = fs.span.end().get() as usize;
            let ok = b <= en && en <= src.len() && src.is_char_boundary(b) && src.is_char_boundary(en);
            if ok {
                let r = fs.resolve_span();
                resolved = json!([r.begin.line, r.begin.column, r.end.line, r.end.column]);
            }
            (json!([fs.file.filename(), b, en]), ok)
        }
        None => (J::Null, true),
    };
    let mut frames_ok = true;
    let mut frames = Vec::new();
    for f in &e.call_stack().frames {
        match &f.location {
            Some(fs) => {
                let src = fs.file.source();
                let b = fs.span.begin().get() as usize;
                let en = fs.span.end().get() as usize;
                if !(b <= en && en <= src.len() && src.is_char_boundary(b) && src.is_char_boundary(en)) {
                    frames_ok = false;
                } else {
                    // must resolve without panicking
                    let r = fs.resolve();
                    let _ = r.begin_file_line();
                }
                frames.push(json!([f.name, fs.file.filename(), b, en]));
            }
            None => frames.push(json!([f.name])),
        }
    }
    json!({"kind": kind_name(e), "msg": msg, "span": span, "span_ok": span_ok,
           "frames": frames, "frames_ok": frames_ok, "full": format!("{}", e), "resolved": resolved})
}

fn configure<'v, 'a, 'e>(
    eval: &mut Evaluator<'v, 'a, 'e>,
    opts: &J,
    loader: &'a Loader,
    store: &'a Store,
) -> Result<(), String> {
    eval.set_loader(loader);
    eval.extra = Some(store);
    if let Some(g) = opts.get("gc").and_then(|g| g.as_str()) {
        if g == "never" {
            eval.disable_gc();
        }
    }
    if let Some(n) = opts.get("max_stack").and_then(|x| x.as_u64()) {
        eval.set_max_callstack_size(n as usize).map_err(|e| e.to_string())?;
    }
    if let Some(n) = opts.get("max_ticks").and_then(|x| x.as_u64()) {
        eval.set_max_tick_count(n).map_err(|e| e.to_string())?;
    }
    if let Some(b) = opts.get("typecheck").and_then(|x| x.as_bool()) {
        eval.enable_static_typechecking(b);
    }
    if let Some(p) = opts.get("profile").and_then(|x| x.as_str()) {
        let mode = profile_mode_of(p).ok_or_else(|| format!("bad profile mode {p}"))?;
        eval.enable_profile(&mode).map_err(|e| e.to_string())?;
    }
    if opts.get("cancel").and_then(|x| x.as_bool()) == Some(true) {
        eval.set_check_cancelled(Box::new(move || store.cancel.get()));
    }
    Ok(())
}

fn gc_schedule_install(opts: &J, over: Option<(&[bool], bool)>) -> bool {
    if let Some((mask, tail)) = over {
        starlark::verif::set_gc_schedule(mask.to_vec(), tail);
        return true;
    }
    if let Some(g) = opts.get("gc") {
        if let Some(mask) = g.get("mask").and_then(|m| m.as_str()) {
            let tail = g.get("tail").and_then(|t| t.as_bool()).unwrap_or(false);
            starlark::verif::set_gc_schedule(mask.bytes().map(|b| b == b'1').collect(), tail);
            return true;
        }
    }
    false
}

pub fn run_spec(spec: &J) -> J {
    run_spec_gc(spec, None)
}

pub fn run_spec_gc(spec: &J, gc_over: Option<(&[bool], bool)>) -> J {
    let opts = spec.get("opts").cloned().unwrap_or(json!({}));
    let dialect = dialect_of(opts.get("dialect").and_then(|x| x.as_str()).unwrap_or("all"));
    let globals = globals_of(opts.get("globals").and_then(|x| x.as_str()).unwrap_or("ext"));
    let store = Store::default();
    let mut loader = Loader {
        modules: HashMap::new(),
    };
    let mut lib_results = Vec::new();
    let scheduled = gc_schedule_install(&opts, gc_over);

    if let Some(libs) = spec.get("libs").and_then(|l| l.as_array()) {
        for lib in libs {
            let name = lib[0].as_str().unwrap().to_owned();
            let src = lib[1].as_str().unwrap().to_owned();
            let r: Result<FrozenModule, starlark::Error> = Module::with_temp_heap(|m| {
                {
                    let mut eval = Evaluator::new(&m);
                    configure(&mut eval, &opts, &loader, &store)
                        .map_err(|e| starlark::Error::new_other(anyhow::anyhow!(e)))?;
                    let ast = AstModule::parse(&name, src, &dialect)?;
                    eval.eval_module(ast, &globals)?;
                }
                m.freeze()
                    .map_err(|e| starlark::Error::new_other(anyhow::anyhow!("{:?}", e)))
            });
            match r {
                Ok(fm) => {
                    loader.modules.insert(name.clone(), fm);
                    lib_results.push(json!({"name": name, "err": J::Null, "out": store.take()}));
                }
                Err(e) => {
                    lib_results.push(json!({"name": name, "err": err_json(&e), "out": store.take()}));
                }
            }
        }
    }

    let steps: Vec<String> = spec
        .get("steps")
        .and_then(|s| s.as_array())
        .map(|a| a.iter().map(|x| x.as_str().unwrap().to_owned()).collect())
        .unwrap_or_default();
    let fresh_each = opts.get("fresh_eval_each_step").and_then(|x| x.as_bool()) == Some(true);
    let mut step_results = Vec::new();
    let mut frozen_vals = J::Null;

    let freeze_result: Option<Result<FrozenModule, String>> = Module::with_temp_heap(|m| {
        if let Some(preset) = opts.get("preset").and_then(|p| p.as_object()) {
            for (k, v) in preset {
                if k == "$extra" {
                    m.set_extra_value(json_to_value(v, m.heap()));
                } else {
                    m.set(k, json_to_value(v, m.heap()));
                }
            }
        }
        {
            let mut eval_holder: Option<Evaluator> = None;
            for (i, src) in steps.iter().enumerate() {
                if eval_holder.is_none() || fresh_each {
                    eval_holder = None;
                    let mut ev = Evaluator::new(&m);
                    if let Err(e) = configure(&mut ev, &opts, &loader, &store) {
                        step_results.push(json!({"machinery_error": e}));
                        return None;
                    }
                    eval_holder = Some(ev);
                }
                let eval = eval_holder.as_mut().unwrap();
                let fname = format!("step{}.star", i);
                let mut phase = "parse";
                let r = AstModule::parse(&fname, src.clone(), &dialect).and_then(|ast| {
                    phase = "eval";
                    eval.eval_module(ast, &globals)
                });
                let (res, err) = match &r {
                    Ok(v) => (J::String(enc::encode(*v)), J::Null),
                    Err(e) => (J::Null, err_json(e)),
                };
                step_results.push(json!({
                    "out": store.take(), "res": res, "err": err, "phase": phase,
                    "stack_count": eval.call_stack_count(),
                    "ticks": eval.get_total_tick_count(),
                }));
            }
            if let Some(call) = opts.get("call") {
                if eval_holder.is_none() {
                    let mut ev = Evaluator::new(&m);
                    let _ = configure(&mut ev, &opts, &loader, &store);
                    eval_holder = Some(ev);
                }
                let eval = eval_holder.as_mut().unwrap();
                let fname = call["fn"].as_str().unwrap();
                let r = match m.get(fname) {
                    None => Err(starlark::Error::new_other(anyhow::anyhow!("no function {fname}"))),
                    Some(f) => {
                        let pos: Vec<Value> = call
                            .get("pos")
                            .and_then(|p| p.as_array())
                            .map(|a| a.iter().map(|x| json_to_value(x, m.heap())).collect())
                            .unwrap_or_default();
                        let named_owned: Vec<(String, Value)> = call
                            .get("named")
                            .and_then(|p| p.as_array())
                            .map(|o| {
                                o.iter()
                                    .map(|kv| {
                                        (
                                            kv[0].as_str().unwrap().to_owned(),
                                            json_to_value(&kv[1], m.heap()),
                                        )
                                    })
                                    .collect()
                            })
                            .unwrap_or_default();
                        let named: Vec<(&str, Value)> =
                            named_owned.iter().map(|(k, v)| (k.as_str(), *v)).collect();
                        eval.eval_function(f, &pos, &named)
                    }
                };
                let (res, err) = match &r {
                    Ok(v) => (J::String(enc::encode(*v)), J::Null),
                    Err(e) => (J::Null, err_json(e)),
                };
                step_results.push(json!({
                    "out": store.take(), "res": res, "err": err,
                    "stack_count": eval.call_stack_count(),
                    "ticks": eval.get_total_tick_count(),
                }));
            }
        }
        if let Some(names) = opts.get("freeze_get").and_then(|x| x.as_array()) {
            let _ = names;
            Some(m.freeze().map_err(|e| format!("{:?}", e)))
        } else {
            None
        }
    });

    if let Some(fr) = freeze_result {
        match fr {
            Ok(fm) => {
                let mut o = serde_json::Map::new();
                for n in opts["freeze_get"].as_array().unwrap() {
                    let n = n.as_str().unwrap();
                    match fm.get_owned(n) {
                        Ok(v) => {
                            o.insert(n.to_owned(), J::String(v.by_ref(|v| enc::encode(*v))));
                        }
                        Err(e) => {
                            o.insert(n.to_owned(), json!({"err": e.to_string()}));
                        }
                    }
                }
                frozen_vals = J::Object(o);
            }
            Err(e) => frozen_vals = json!({"$freeze_err": e}),
        }
    }

    let gc_info = if scheduled {
        let (seen, collected) = starlark::verif::clear_gc_schedule();
        json!({"safepoints": seen, "collections": collected})
    } else {
        J::Null
    };

    json!({
        "id": spec.get("id").cloned().unwrap_or(J::Null),
        "libs": lib_results,
        "steps": step_results,
        "frozen": frozen_vals,
        "gc": gc_info,
    })
}
