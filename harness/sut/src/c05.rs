//! C05: parsing is total. Exhaustive enumeration of short texts / token sequences + explicit lists;
//! invariants on errors, trees, literal spans, and dialect monotonicity.

use std::collections::HashSet;
use std::panic;

use serde_json::Value as J;
use serde_json::json;
use starlark::syntax::AstModule;
use starlark::syntax::Dialect;
use starlark::syntax::DialectTypes;

use crate::astwalk::Walk;

pub const T1_ALPHABET: &[&str] = &[
    "\"", "'", "\\", "\n", "\r", "\t", " ", "#", "{", "}", "!", "f", "r", "b", "x", "0", "\u{e9}",
];
pub const T2_TOKENS: &[&str] = &[
    "a", "1", "\"s\"", "\n", "\n  ", "(", ")", "[", "]", "{", "}", ",", ":", "=", "+", "-", "*", "**", "/", ".", "->",
    "...", "def ", "lambda ", "load", "not ", " in ", " if ", " else ", " for ", "return ", "pass", ";", "==", "+=",
    "f\"{a}\"", "0x", "1.", "|", "\\\n", "and ", "break", "  ",
];

fn dialect_bits(bits: u32, types: u32) -> Dialect {
    Dialect {
        enable_def: bits & 1 != 0,
        enable_lambda: bits & 2 != 0,
        enable_load: bits & 4 != 0,
        enable_keyword_only_arguments: bits & 8 != 0,
        enable_positional_only_arguments: bits & 16 != 0,
        enable_top_level_stmt: bits & 32 != 0,
        enable_f_strings: bits & 64 != 0,
        enable_types: match types {
            0 => DialectTypes::Disable,
            1 => DialectTypes::ParseOnly,
            _ => DialectTypes::Enable,
        },
        enable_load_reexport: true,
        ..Dialect::Standard
    }
}

fn corner_dialects() -> Vec<(&'static str, Dialect)> {
    vec![
        ("none", dialect_bits(0, 0)),
        ("std", Dialect::Standard),
        ("ext", Dialect::Extended),
        ("all", Dialect::AllOptionsInternal),
    ]
}

pub enum Parsed {
    Ok(String),
    Err,
    Bad(String),
}

/// Parse under one dialect and check every invariant. Returns the S-expression if accepted.
pub fn check_one(src: &str, d: &Dialect) -> Parsed {
    let r = panic::catch_unwind(panic::AssertUnwindSafe(|| AstModule::parse("t.star", src.to_owned(), d)));
    let r = match r {
        Ok(r) => r,
        Err(_) => return Parsed::Bad(format!("panic: {}", crate::take_panic())),
    };
    match r {
        Err(e) => {
            let msg = format!("{}", e.without_diagnostic());
            if msg.trim().is_empty() {
                return Parsed::Bad("error with empty message".into());
            }
            match e.span() {
                None => Parsed::Bad(format!("error without span: {msg}")),
                Some(fs) => {
                    let b = fs.span.begin().get() as usize;
                    let en = fs.span.end().get() as usize;
                    if !(b <= en && en <= src.len()) {
                        return Parsed::Bad(format!("error span {b}..{en} outside file (len {}): {msg}", src.len()));
                    }
                    if !(src.is_char_boundary(b) && src.is_char_boundary(en)) {
                        return Parsed::Bad(format!("error span {b}..{en} not on char boundary: {msg}"));
                    }
                    // resolving must not panic
                    let rr = panic::catch_unwind(panic::AssertUnwindSafe(|| {
                        let r = fs.resolve();
                        format!("{}", r)
                    }));
                    if rr.is_err() {
                        return Parsed::Bad(format!("error span does not resolve: {}", crate::take_panic()));
                    }
                    Parsed::Err
                }
            }
        }
        Ok(ast) => {
            let r = panic::catch_unwind(panic::AssertUnwindSafe(|| {
                let mut w = Walk::new(src, false);
                w.module(ast.statement());
                // Display must not panic either
                let _ = format!("{}", ast.statement().node);
                (w.sexpr, w.problems, w.literals)
            }));
            let (sexpr, problems, literals) = match r {
                Ok(x) => x,
                Err(_) => return Parsed::Bad(format!("panic walking tree: {}", crate::take_panic())),
            };
            if let Some(p) = problems.into_iter().next() {
                return Parsed::Bad(p);
            }
            for (kind, b, e, repr) in literals {
                let Some(text) = src.get(b..e) else { continue };
                let want = format!("(module (expr ({repr})))");
                let r2 = panic::catch_unwind(panic::AssertUnwindSafe(|| {
                    AstModule::parse("lit.star", text.to_owned(), d).ok().map(|m| {
                        let mut w = Walk::new(text, false);
                        w.module(m.statement());
                        w.sexpr
                    })
                }));
                match r2 {
                    Ok(Some(s)) if s == want => {}
                    Ok(got) => {
                        return Parsed::Bad(format!(
                            "{kind} literal span {b}..{e} = {:?} does not re-lex to itself: want {want}, got {:?}",
                            text, got
                        ));
                    }
                    Err(_) => return Parsed::Bad(format!("panic re-lexing literal {:?}", text)),
                }
            }
            Parsed::Ok(sexpr)
        }
    }
}

pub struct Acc {
    pub inputs: u64,
    pub parses: u64,
    pub accepted: [u64; 4],
    pub violations: Vec<J>,
    pub trees: HashSet<u64>,
}

impl Acc {
    fn bad(&mut self, src: &str, dialect: &str, what: String) {
        if self.violations.len() < 25 {
            self.violations.push(json!({"input": src, "dialect": dialect, "what": what}));
        }
    }
}

fn h64(s: &str) -> u64 {
    use std::hash::Hash;
    use std::hash::Hasher;
    let mut h = std::collections::hash_map::DefaultHasher::new();
    s.hash(&mut h);
    h.finish()
}

/// Corner-dialect chain none <= std <= ext <= all.
pub fn check_corners(src: &str, acc: &mut Acc, corners: &[(&'static str, Dialect)]) -> bool {
    acc.inputs += 1;
    let mut prev: Option<(usize, String)> = None;
    let mut any_ok = false;
    for (i, (name, d)) in corners.iter().enumerate() {
        acc.parses += 1;
        match check_one(src, d) {
            Parsed::Bad(w) => {
                acc.bad(src, name, w);
                prev = None;
            }
            Parsed::Err => {
                if let Some((pi, _)) = &prev {
                    acc.bad(src, name, format!("accepted under `{}` but rejected under `{}`", corners[*pi].0, name));
                }
                prev = None;
            }
            Parsed::Ok(s) => {
                acc.accepted[i] += 1;
                any_ok = true;
                if let Some((pi, ps)) = &prev {
                    if *ps != s {
                        acc.bad(src, name, format!("tree differs between `{}` and `{}`: {} vs {}", corners[*pi].0, name, ps, s));
                    }
                }
                acc.trees.insert(h64(&s));
                prev = Some((i, s));
            }
        }
    }
    any_ok
}

/// The lattice is walked for an input that some dialect accepts. The four named corners do not contain the middle type level
/// (`ParseOnly`), so the maxima of the two other type levels are probed as well: if acceptance is monotone in the switches,
/// some dialect of a type level accepts iff the all-switches dialect of that level does.
fn accepted_somewhere_else(src: &str, acc: &mut Acc) -> bool {
    for types in [1u32, 0u32] {
        acc.parses += 1;
        if let Parsed::Ok(_) = check_one(src, &dialect_bits(127, types)) {
            return true;
        }
    }
    false
}

/// Full lattice: 7 switches x 3 type levels; every single-switch increase must preserve acceptance and tree.
pub fn check_lattice(src: &str, acc: &mut Acc) {
    let mut res: Vec<Option<String>> = Vec::with_capacity(384);
    for types in 0..3u32 {
        for bits in 0..128u32 {
            acc.parses += 1;
            match check_one(src, &dialect_bits(bits, types)) {
                Parsed::Bad(w) => {
                    acc.bad(src, &format!("bits={bits:07b},types={types}"), w);
                    res.push(None);
                }
                Parsed::Err => res.push(None),
                Parsed::Ok(s) => res.push(Some(s)),
            }
        }
    }
    let idx = |bits: u32, types: u32| (types * 128 + bits) as usize;
    for types in 0..3u32 {
        for bits in 0..128u32 {
            let Some(s) = &res[idx(bits, types)] else { continue };
            let mut ups: Vec<(u32, u32)> = (0..7).filter(|k| bits & (1 << k) == 0).map(|k| (bits | 1 << k, types)).collect();
            if types < 2 {
                ups.push((bits, types + 1));
            }
            for (b2, t2) in ups {
                match &res[idx(b2, t2)] {
                    None => {
                        acc.bad(src, &format!("bits={bits:07b},types={types}"),
                                format!("accepted, but rejected after enabling more: bits={b2:07b},types={t2}"));
                        return;
                    }
                    Some(s2) if s2 != s => {
                        acc.bad(src, &format!("bits={bits:07b},types={types}"),
                                format!("tree changes after enabling more (bits={b2:07b},types={t2}): {s} vs {s2}"));
                        return;
                    }
                    _ => {}
                }
            }
        }
    }
}

fn enumerate(alphabet: &[&str], prefix: &str, first: Option<usize>, len: usize, trace: bool, lattice: bool, acc: &mut Acc) {
    let corners = corner_dialects();
    let mut idx = vec![0usize; len];
    if let Some(f) = first {
        if len == 0 {
            return;
        }
        idx[0] = f;
    }
    let mut buf = String::new();
    loop {
        buf.clear();
        buf.push_str(prefix);
        for &i in &idx {
            buf.push_str(alphabet[i]);
        }
        if trace {
            eprintln!("INPUT {:?}", buf);
        }
        let ok = check_corners(&buf, acc, &corners);
        if lattice && (ok || accepted_somewhere_else(&buf, acc)) {
            check_lattice(&buf, acc);
        }
        // increment (position 0 fixed if `first` given)
        let lo = if first.is_some() { 1 } else { 0 };
        let mut p = len;
        loop {
            if p == lo {
                return;
            }
            p -= 1;
            idx[p] += 1;
            if idx[p] < alphabet.len() {
                break;
            }
            idx[p] = 0;
        }
    }
}

pub fn cmd() {
    crate::install_panic_hook();
    use std::io::BufRead;
    use std::io::Write;
    let stdin = std::io::stdin();
    let stdout = std::io::stdout();
    for line in stdin.lock().lines() {
        let line = line.unwrap();
        if line.trim().is_empty() {
            continue;
        }
        let spec: J = serde_json::from_str(&line).unwrap();
        let mut acc = Acc { inputs: 0, parses: 0, accepted: [0; 4], violations: vec![], trees: HashSet::new() };
        let trace = spec.get("trace").and_then(|x| x.as_bool()) == Some(true);
        let lattice = spec.get("lattice").and_then(|x| x.as_bool()) == Some(true);
        match spec["job"].as_str().unwrap() {
            k @ ("t1" | "t2") => {
                let alphabet = if k == "t1" { T1_ALPHABET } else { T2_TOKENS };
                let len = spec["len"].as_u64().unwrap() as usize;
                let prefix = spec.get("prefix").and_then(|x| x.as_str()).unwrap_or("");
                let first = spec.get("first").and_then(|x| x.as_u64()).map(|x| x as usize);
                enumerate(alphabet, prefix, first, len, trace, lattice, &mut acc);
            }
            "list" => {
                let corners = corner_dialects();
                for i in spec["inputs"].as_array().unwrap() {
                    let s = i.as_str().unwrap();
                    if trace {
                        eprintln!("INPUT {:?}", s);
                    }
                    let ok = check_corners(s, &mut acc, &corners);
                    if lattice && (ok || accepted_somewhere_else(s, &mut acc)) {
                        check_lattice(s, &mut acc);
                    }
                }
            }
            x => panic!("unknown job {x}"),
        }
        let o = json!({"id": spec["id"], "inputs": acc.inputs, "parses": acc.parses, "accepted": acc.accepted,
                       "distinct_trees": acc.trees.len(), "violations": acc.violations});
        let mut so = stdout.lock();
        writeln!(so, "{}", o).unwrap();
        so.flush().unwrap();
    }
}
