//! C13: frozen values stay alive as long as anything that can reach them is alive.
//! Executes one history: build objects (modules, handles, globals) then drop them in a given order,
//! re-observing every surviving object after every drop (arenas are poisoned on drop: hook H2).

use std::collections::HashMap;
use std::panic;

use dupe::Dupe;
use serde_json::Value as J;
use serde_json::json;
use starlark::environment::FrozenModule;
use starlark::environment::Globals;
use starlark::environment::GlobalsBuilder;
use starlark::environment::Module;
use starlark::eval::Evaluator;
use starlark::syntax::AstModule;
use starlark::syntax::Dialect;
use starlark::values::FrozenHeap;
use starlark::values::FrozenHeapName;
use starlark::values::FrozenValue;
use starlark::values::OwnedFrozen;
use starlark::values::Value;
use starlark::values::dict::DictRef;
use starlark::values::list::ListRef;
use starlark::values::tuple::TupleRef;

use crate::enc;
use crate::natives::Store;
use crate::runner::Loader;
use crate::runner::extensions;

enum Obj {
    Module(FrozenModule),
    Handle(OwnedFrozen<Value<'static>>),
    Globals(Globals),
}

fn base_globals() -> Globals {
    crate::runner::globals_of("ext")
}

fn call_frozen(f: &OwnedFrozen<Value<'static>>) -> String {
    // call a frozen function from a fresh module + evaluator
    let store = Store::default();
    Module::with_temp_heap(|m| {
        let fv = f.clone().add_to_heap(m.heap());
        let mut eval = Evaluator::new(&m);
        eval.extra = Some(&store);
        match eval.eval_function(fv, &[], &[]) {
            Ok(v) => enc::encode(v),
            Err(e) => format!("ERR:{}", e.without_diagnostic()),
        }
    })
}

fn observe_handle(h: &OwnedFrozen<Value<'static>>) -> String {
    let (s, is_fn) = h.by_ref(|v| (enc::encode(*v), v.get_type() == "function"));
    if is_fn {
        format!("{}=>{}", s, call_frozen(h))
    } else {
        s
    }
}

fn observe(o: &Obj) -> String {
    match o {
        Obj::Handle(h) => observe_handle(h),
        Obj::Module(m) => {
            let mut names: Vec<String> = m.names().map(|n| n.as_str().to_owned()).collect();
            names.sort();
            let mut out = String::new();
            for n in names {
                if let Ok(h) = m.get_owned(&n) {
                    out.push_str(&n);
                    out.push('=');
                    out.push_str(&observe_handle(&h));
                    out.push(';');
                }
            }
            if let Some(x) = m.extra_value_owned() {
                out.push_str("$extra=");
                out.push_str(&observe_handle(&x));
            }
            out
        }
        Obj::Globals(g) => {
            let mut out = String::new();
            for (n, v) in g.iter() {
                if n == "GV" || n == "GF" {
                    out.push_str(n);
                    out.push('=');
                    out.push_str(&enc::encode(v.to_value()));
                    out.push(';');
                }
            }
            out
        }
    }
}

fn noise(k: usize) {
    // build and drop unrelated frozen heaps on this thread: their chunks are recycled through the per-thread cache
    for i in 0..k + 1 {
        let src = format!("N = ['noise' * {}, [{}] * 40, {{'k': 'v' * 30}}]\ndef nf():\n    return N\n", 20 + i * 7, i);
        let fm = Module::with_temp_heap(|m| {
            {
                let mut eval = Evaluator::new(&m);
                let ast = AstModule::parse("noise.star", src, &Dialect::AllOptionsInternal).unwrap();
                eval.eval_module(ast, &base_globals()).unwrap();
            }
            m.freeze().unwrap()
        });
        let _ = observe(&Obj::Module(fm));
    }
}

fn module_of<'a>(objs: &'a HashMap<String, Obj>, id: &str) -> Result<&'a FrozenModule, String> {
    match objs.get(id) {
        Some(Obj::Module(m)) => Ok(m),
        _ => Err(format!("no module {id}")),
    }
}

fn handle_of<'a>(objs: &'a HashMap<String, Obj>, id: &str) -> Result<&'a OwnedFrozen<Value<'static>>, String> {
    match objs.get(id) {
        Some(Obj::Handle(h)) => Ok(h),
        _ => Err(format!("no handle {id}")),
    }
}

fn build(objs: &mut HashMap<String, Obj>, op: &J) -> Result<(), String> {
    let id = op["id"].as_str().unwrap().to_owned();
    let kind = op["op"].as_str().unwrap();
    let store = Store::default();
    let obj = match kind {
        "module" | "module_import" | "module_inject" | "module_with_globals" => {
            let src = op["src"].as_str().unwrap().to_owned();
            let mut loader = Loader { modules: HashMap::new() };
            if let Some(ls) = op.get("loads").and_then(|l| l.as_array()) {
                for l in ls {
                    let l = l.as_str().unwrap();
                    loader.modules.insert(l.to_owned(), module_of(objs, l)?.dupe());
                }
            }
            let globals = match op.get("globals").and_then(|g| g.as_str()) {
                Some(g) => match objs.get(g) {
                    Some(Obj::Globals(g)) => g.dupe(),
                    _ => return Err(format!("no globals {g}")),
                },
                None => base_globals(),
            };
            let fm = Module::with_temp_heap(|m| -> Result<FrozenModule, String> {
                if kind == "module_import" {
                    m.import_public_symbols(module_of(objs, op["from"].as_str().unwrap())?);
                }
                if kind == "module_inject" {
                    let h = handle_of(objs, op["handle"].as_str().unwrap())?.clone();
                    let v = h.add_to_heap(m.heap());
                    m.set("INJ", v);
                    if op.get("as_extra").and_then(|x| x.as_bool()) == Some(true) {
                        m.set_extra_value(v);
                    }
                }
                {
                    let mut eval = Evaluator::new(&m);
                    eval.set_loader(&loader);
                    eval.extra = Some(&store);
                    let ast = AstModule::parse(&id, src, &Dialect::AllOptionsInternal).map_err(|e| e.to_string())?;
                    // "gc": collect at every safepoint of this module's evaluation (hook H1): the references a value heap
                    // holds on frozen heaps must survive collections
                    let gc = op.get("gc").and_then(|g| g.as_bool()) == Some(true);
                    if gc {
                        starlark::verif::set_gc_schedule(vec![], true);
                    }
                    let r = eval.eval_module(ast, &globals).map_err(|e| format!("{}", e.without_diagnostic()));
                    if gc {
                        starlark::verif::clear_gc_schedule();
                    }
                    r?;
                }
                m.freeze().map_err(|e| format!("{:?}", e))
            })?;
            drop(loader);
            Obj::Module(fm)
        }
        // A value obtained through load() is kept as a `Value<'v>` of the still-living value heap while the importing module
        // is dropped (frozen first or not) and the exporters are dropped: the value heap must keep them alive.
        "module_hold" => {
            let src = op["src"].as_str().unwrap().to_owned();
            let name = op["name"].as_str().unwrap().to_owned();
            let freeze = op.get("freeze").and_then(|x| x.as_bool()) == Some(true);
            let gc = op.get("gc").and_then(|g| g.as_bool()) == Some(true);
            let mut loader = Loader { modules: HashMap::new() };
            let loads: Vec<String> = op["loads"].as_array().unwrap().iter().map(|l| l.as_str().unwrap().to_owned()).collect();
            for l in &loads {
                loader.modules.insert(l.clone(), module_of(objs, l)?.dupe());
            }
            let r = Module::with_temp_heap(|m| -> Result<(), String> {
                {
                    let mut eval = Evaluator::new(&m);
                    eval.set_loader(&loader);
                    eval.extra = Some(&store);
                    let ast = AstModule::parse(&id, src, &Dialect::AllOptionsInternal).map_err(|e| e.to_string())?;
                    if gc {
                        starlark::verif::set_gc_schedule(vec![], true);
                    }
                    let r = eval.eval_module(ast, &base_globals()).map_err(|e| format!("{}", e.without_diagnostic()));
                    if gc {
                        starlark::verif::clear_gc_schedule();
                    }
                    r?;
                }
                let v = m.get(&name).ok_or("no such variable")?;
                let before = enc::encode(v);
                // the importing module goes away (its value heap does not: we are inside its scope) ...
                if freeze {
                    let fm = m.freeze().map_err(|e| format!("{:?}", e))?;
                    let seen = observe(&Obj::Module(fm.dupe()));
                    drop(fm);
                    let _ = seen;
                } else {
                    drop(m);
                }
                // ... and so do the exporters and the loader
                drop(loader);
                for l in &loads {
                    objs.remove(l);
                }
                noise(3);
                let after = enc::encode(v);
                if before != after {
                    return Err(format!("CONTENT CHANGED: value obtained through load() read {before} before and {after} after its exporter was dropped"));
                }
                Ok(())
            });
            r?;
            return Ok(());
        }
        "handle" => {
            let m = module_of(objs, op["module"].as_str().unwrap())?;
            Obj::Handle(m.get_owned(op["name"].as_str().unwrap()).map_err(|e| e.to_string())?)
        }
        "clone" => Obj::Handle(handle_of(objs, op["from"].as_str().unwrap())?.clone()),
        "map" => {
            let h = handle_of(objs, op["from"].as_str().unwrap())?.clone();
            let path: Vec<J> = op["path"].as_array().unwrap().clone();
            let r = h.try_map::<Value<'static>, String, _>(|mut v| {
                for p in &path {
                    v = if let Some(i) = p.as_u64() {
                        if let Some(l) = ListRef::from_value(v) {
                            *l.content().get(i as usize).ok_or("index")?
                        } else if let Some(t) = TupleRef::from_value(v) {
                            *t.content().get(i as usize).ok_or("index")?
                        } else {
                            return Err("not a sequence".to_owned());
                        }
                    } else {
                        let k = p.as_str().unwrap();
                        DictRef::from_value(v).ok_or("not a dict")?.get_str(k).ok_or("key")?
                    };
                }
                Ok(v)
            })?;
            Obj::Handle(r)
        }
        // a "forwarding" frozen heap: allocates nothing itself (or one wrapper list), only references the handle's heap
        "forward" | "forward_wrap" => {
            let h = handle_of(objs, op["from"].as_str().unwrap())?.clone();
            let wrap = kind == "forward_wrap";
            let r: OwnedFrozen<Value<'static>> = OwnedFrozen::build(FrozenHeapName::user("fwd".to_owned()), |heap: &FrozenHeap| {
                let v: FrozenValue = h.as_ref().add_to_frozen_heap(heap).unpack_frozen().expect("frozen");
                if wrap {
                    heap.alloc(starlark::values::list::AllocList([v, v])).to_value()
                } else {
                    v.to_value()
                }
            });
            Obj::Handle(r)
        }
        "globals" => {
            let h = handle_of(objs, op["handle"].as_str().unwrap())?;
            let mut b = GlobalsBuilder::extended_by(&extensions()).with(crate::natives::harness_natives);
            let fv = h.as_ref().add_to_frozen_heap(b.frozen_heap()).unpack_frozen().ok_or("not frozen")?;
            b.set("GV", fv);
            Obj::Globals(b.build())
        }
        "module_from_globals" => match objs.get(op["globals"].as_str().unwrap()) {
            Some(Obj::Globals(g)) => Obj::Module(FrozenModule::from_globals(g).map_err(|e| format!("{:?}", e))?),
            _ => return Err("no globals".to_owned()),
        },
        x => return Err(format!("unknown op {x}")),
    };
    objs.insert(id, obj);
    Ok(())
}

fn one(spec: &J) -> J {
    let mut objs: HashMap<String, Obj> = HashMap::new();
    for op in spec["build"].as_array().unwrap() {
        if let Err(e) = build(&mut objs, op) {
            return json!({"id": spec["id"], "build_error": e, "at": op["id"]});
        }
    }
    let mut expected: HashMap<String, String> = HashMap::new();
    for (k, o) in &objs {
        expected.insert(k.clone(), observe(o));
    }
    let noise_at: Vec<u64> = spec.get("noise").and_then(|n| n.as_array()).map(|a| a.iter().map(|x| x.as_u64().unwrap()).collect()).unwrap_or_default();
    let mut checks = 0;
    for (step, d) in spec["drops"].as_array().unwrap().iter().enumerate() {
        let d = d.as_str().unwrap();
        objs.remove(d);
        if noise_at.contains(&(step as u64)) {
            noise(step % 3);
        }
        let mut keys: Vec<&String> = objs.keys().collect();
        keys.sort();
        for k in keys {
            checks += 1;
            let got = observe(&objs[k]);
            if got != expected[k] {
                return json!({"id": spec["id"], "mismatch": {"after_drop": d, "step": step, "object": k,
                              "expected": expected[k], "got": got}});
            }
        }
    }
    json!({"id": spec["id"], "ok": true, "checks": checks, "objects": expected.len(),
           "obs": expected.values().map(|v| v.len()).sum::<usize>()})
}

pub fn cmd() {
    crate::install_panic_hook();
    use std::io::BufRead;
    use std::io::Write;
    let stdin = std::io::stdin();
    let stdout = std::io::stdout();
    let mut out = std::io::BufWriter::new(stdout.lock());
    for line in stdin.lock().lines() {
        let line = line.unwrap();
        if line.trim().is_empty() {
            continue;
        }
        let spec: J = serde_json::from_str(&line).unwrap();
        let r = panic::catch_unwind(panic::AssertUnwindSafe(|| one(&spec)));
        let o = match r {
            Ok(o) => o,
            Err(_) => json!({"id": spec["id"], "panic": crate::take_panic()}),
        };
        writeln!(out, "{}", o).unwrap();
        out.flush().unwrap();
    }
}
