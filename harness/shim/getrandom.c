/* LD_PRELOAD shim: make the process's "random" hash seed a function of VERIF_HASH_SEED (C14). */
#define _GNU_SOURCE
#include <stdlib.h>
#include <string.h>
#include <sys/types.h>
#include <stddef.h>

static void fill(void *buf, size_t len) {
    const char *s = getenv("VERIF_HASH_SEED");
    unsigned long long x = s ? strtoull(s, 0, 10) : 0;
    unsigned char *p = buf;
    for (size_t i = 0; i < len; i++) {
        x = x * 6364136223846793005ULL + 1442695040888963407ULL;
        p[i] = (unsigned char)(x >> 33);
    }
}

ssize_t getrandom(void *buf, size_t len, unsigned int flags) {
    (void)flags;
    fill(buf, len);
    return (ssize_t)len;
}

int getentropy(void *buf, size_t len) {
    fill(buf, len);
    return 0;
}
